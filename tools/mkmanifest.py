"""(Re)generate /verif/MANIFEST.json from the check modules that exist"""
import importlib, json, os, sys
VERIF = os.path.dirname(os.path.dirname(os.path.abspath(__file__)))
sys.path.insert(0, VERIF)
props = [json.loads(line) for line in open(os.path.join(VERIF, 'properties.jsonl'))]
checks, missing = [], []
for prop in props:
    cid = prop['id']
    path = os.path.join(VERIF, 'usimmon', 'checks', cid.lower() + '.py')
    if not os.path.exists(path):
        missing.append({'property_id': cid, 'reason': 'check not built yet in this session (runtime monitoring applies; see DESIGN.md section 5)'})
        continue
    mod = importlib.import_module('usimmon.checks.' + cid.lower())
    checks.append({
        'property_id': cid,
        'quick_cmd': './check %s --tier quick' % cid,
        'thorough_cmd': './check %s --tier thorough' % cid,
        'evidence_file': 'evidence/%s.json' % cid,
        'replay_cmd_template': './check %s --replay {path}' % cid,
        'engine': 'usimmon',
        'level_claimed': {
            'category': mod.LEVEL,
            'text': getattr(mod, 'LEVEL_TEXT', mod.RULE),
            'design_ref': 'DESIGN.md section 5, %s' % cid,
        },
        'level_note': getattr(mod, 'LEVEL_NOTE', '; '.join(getattr(mod, 'ASSUMPTIONS', []))),
        'technique': getattr(mod, 'TECHNIQUE', 'runtime monitoring: probe at activation boundaries + oracle over recorded event log'),
    })
manifest = {
    'version': 1,
    'setup_cmd': 'true',
    'hooks': {
        'guard': 'USIM_VERIF',
        'enable': 'none needed: monitors attach from /verif by wrapping class attributes of the imported usim modules (no source hooks in /repo); the guard name is reserved and unused',
        'baseline_off_cmd': 'cd /repo && /venv/bin/python -m pytest -ra -q -p no:cacheprovider --timeout=900 --continue-on-collection-errors',
        'source_commits': [],
        'add_only': True,
    },
    'engines': [{
        'name': 'usimmon',
        'path': 'usimmon/',
        'serves_properties': [c['property_id'] for c in checks],
        'kind_free_text': 'runtime monitoring of the real usim code: kernel probe (Loop.run/schedule/_run_coroutine wrappers), generated and fault-injected workloads, reference-model and event-log oracles; sharded over 16 subprocesses with rotating configurations (hash seed, USIM_WAITQUEUE, -O, heap junk)',
    }],
    'checks': checks,
    'not_applicable': missing,
    'notes': 'Exit codes: 0 held, 1 violation (VIOLATION line), 2 inconclusive (INCONCLUSIVE line). Known findings: known_findings.json (matched by mechanism). VERIF_SEED selects the workload, VERIF_REPO selects the tree under test (default /repo).',
}
with open(os.path.join(VERIF, 'MANIFEST.json'), 'w') as stream:
    json.dump(manifest, stream, indent=1)
    stream.write('\n')
print('claimed', [c['property_id'] for c in checks], 'missing', len(missing))
