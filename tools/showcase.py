"""pretty-print the program of a replay file"""
import json, sys
sys.path.insert(0, '/verif')
def show_steps(steps, ind):
    for st in steps:
        d = {k: v for k, v in st.items() if k not in ('body', 'children', 'acts', 'bodies', 'child')}
        print(' ' * ind + json.dumps(d))
        if 'body' in st: show_steps(st['body'], ind + 4)
        for ch in st.get('children', ()):
            print(' ' * (ind + 2) + 'child ' + json.dumps({k: v for k, v in ch.items() if k != 'steps'}))
            show_steps(ch['steps'], ind + 6)
        for ch in st.get('acts', ()):
            print(' ' * (ind + 2) + 'act ' + json.dumps({k: v for k, v in ch.items() if k != 'steps'}))
            show_steps(ch['steps'], ind + 6)
        if 'child' in st:
            ch = st['child']
            print(' ' * (ind + 2) + 'child ' + json.dumps({k: v for k, v in ch.items() if k != 'steps'}))
            show_steps(ch['steps'], ind + 6)
        for i, b in enumerate(st.get('bodies', ())):
            print(' ' * (ind + 2) + 'body%d' % i)
            show_steps(b, ind + 6)
def show(program):
    print('start', program.get('start'), 'till', program.get('till'))
    for root in program['roots']:
        print('root', root['name'])
        show_steps(root['steps'], 4)
if __name__ == '__main__':
    rec = json.load(open(sys.argv[1]))
    vio = rec['violation']
    print(vio['mechanism'], vio['msg'][:300], vio.get('config'))
    print('case', {k: v for k, v in vio['case'].items() if k != 'program'})
    if 'program' in vio['case']:
        show(vio['case']['program'])
