"""tools/show.py <check> <replay.json> [n_events]: re-run a replay case of a common.explore-style check and print log"""
import json, sys, importlib
sys.path.insert(0, '/verif')
from tools.showcase import show
from usimmon.checks import common
mod = importlib.import_module('usimmon.checks.' + sys.argv[1].lower())
rec = json.load(open(sys.argv[2]))
case = rec['violation']['case']
print(rec['violation']['mechanism'], rec['violation']['msg'][:300], 'plan', case.get('plan'))
program, rng = mod.build(case)
show(program)
env, sess = common.one_run(program, case.get('plan'))
print('outcome', env.outcome)
n = int(sys.argv[3]) if len(sys.argv) > 3 else 40
pat = sys.argv[4] if len(sys.argv) > 4 else None
for ev in sess.events[-n:]:
    if pat is None or pat in str(ev):
        print(ev)
for v in sess.violations: print(v)
