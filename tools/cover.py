#!/venv/bin/python
"""Which lines and branches of the library do the quick workloads reach?  (diagnostic, no verdict)

usage: tools/cover.py [--checks C01,C02] [--keep]
Runs the quick tier of the checks with every worker under coverage.py (VERIF_COVER), combines the
data and prints the lines / branches of /repo/usim that no workload executed. Blind spots of the
workloads show up here before a seeded change finds them.
"""
import argparse, os, shutil, subprocess, sys, tempfile

VERIF = os.path.dirname(os.path.dirname(os.path.abspath(__file__)))
ALL = ['C%02d' % i for i in range(1, 21)]


def main():
    parser = argparse.ArgumentParser()
    parser.add_argument('--checks', default=','.join(ALL))
    parser.add_argument('--keep', action='store_true')
    args = parser.parse_args()
    data = tempfile.mkdtemp(prefix='usim_cov_', dir='/tmp')
    try:
        for cid in args.checks.split(','):
            proc = subprocess.run([os.path.join(VERIF, 'check'), cid, '--tier', 'quick'], cwd=VERIF,
                                  env=dict(os.environ, VERIF_COVER=data, VERIF_SPIN='0'),
                                  stdout=subprocess.PIPE, stderr=subprocess.STDOUT)
            print(cid, 'exit', proc.returncode, flush=True)
        env = dict(os.environ, COVERAGE_FILE=os.path.join(data, 'cov'))
        subprocess.run(['/venv/bin/python', '-m', 'coverage', 'combine', '-q', data], cwd=data, env=env)
        subprocess.run(['/venv/bin/python', '-m', 'coverage', 'report', '-m', '--skip-covered'],
                       cwd=data, env=env)
    finally:
        if not args.keep:
            shutil.rmtree(data, ignore_errors=True)
        else:
            print('data kept in', data)


if __name__ == '__main__':
    main()
