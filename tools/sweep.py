#!/venv/bin/python
"""Run checks on the unchanged tree under several seeds and report every run that is not silent.

usage: tools/sweep.py [--tier quick|thorough] [--seeds 1,2,3] [--checks C01,C02] [--out DIR]
A run is silent when it exits 0 and prints no VIOLATION / INCONCLUSIVE line (KNOWN-FINDING lines are
expected). Output of every run that is not silent is kept under DIR (default .work/sweep).
Meant for `vp run -- tools/sweep.py ...` (the evidence files it rewrites belong to the snapshot).
"""
import argparse, os, subprocess, sys, time

VERIF = os.path.dirname(os.path.dirname(os.path.abspath(__file__)))
ALL = ['C%02d' % i for i in range(1, 21)]


def main():
    parser = argparse.ArgumentParser()
    parser.add_argument('--tier', default='quick')
    parser.add_argument('--seeds', default='1,2,3,4,5,6')
    parser.add_argument('--checks', default=','.join(ALL))
    parser.add_argument('--out', default=os.path.join(VERIF, '.work', 'sweep'))
    args = parser.parse_args()
    os.makedirs(args.out, exist_ok=True)
    loud = 0
    for seed in args.seeds.split(','):
        for cid in args.checks.split(','):
            started = time.time()
            proc = subprocess.run([os.path.join(VERIF, 'check'), cid, '--tier', args.tier], cwd=VERIF,
                                  env=dict(os.environ, VERIF_SEED=seed, PYTHONHASHSEED='0'),
                                  stdout=subprocess.PIPE, stderr=subprocess.STDOUT)
            out = proc.stdout.decode(errors='replace')
            bad = proc.returncode != 0 or 'VIOLATION' in out or 'INCONCLUSIVE' in out
            print('%s seed=%s tier=%s exit=%d %.0fs %s' % (cid, seed, args.tier, proc.returncode,
                                                          time.time() - started, 'LOUD' if bad else 'silent'),
                  flush=True)
            if bad:
                loud += 1
                path = os.path.join(args.out, '%s-%s-seed%s.log' % (cid, args.tier, seed))
                with open(path, 'w') as stream:
                    stream.write(out)
                print('\n'.join(line for line in out.splitlines()
                                if 'VIOLATION' in line or 'INCONCLUSIVE' in line or ' x [' in line)[:3000],
                      flush=True)
    print('sweep done: %d loud runs' % loud)
    sys.exit(1 if loud else 0)


if __name__ == '__main__':
    main()
