import json, sys
sys.path.insert(0, '/verif')
from usimmon.checks import c03
from tools.showcase import show
rec = json.load(open(sys.argv[1]))
case = rec['violation']['case']
program, rng = c03.build(case)
print(rec['violation']['mechanism'], rec['violation']['msg'][:200], 'plan', case.get('plan'))
show(program)
env, sess = c03.one_run(program, case.get('plan'))
print(env.outcome)
for ev in sess.events[-int(sys.argv[2]) if len(sys.argv) > 2 else -40:]:
    print(ev)
print(sess.violations)
print('trace tail', sess.trace[-8:])
