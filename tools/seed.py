#!/venv/bin/python
"""Verify and store a breaking change delivered by a sub-agent.

usage: tools/seed.py <scratch worktree> <property id> <name> ["what it needs to manifest"]
Checks, on fresh scratch copies of /repo (removed afterwards):
  1. the patch applies and the repository's own test suite still passes with it,
  2. the demonstration fails with the patch and passes without it,
  3. which of /verif's quick checks report the change (property's own check first).
Stores /verif/seeded/<name>/{patch.diff, demo.py, meta.json}.
"""
import json, os, shutil, subprocess, sys, tempfile

VERIF = os.path.dirname(os.path.dirname(os.path.abspath(__file__)))
sys.path.insert(0, os.path.join(VERIF, 'tools'))
import selftest  # noqa: E402


def main():
    source, prop, name = sys.argv[1], sys.argv[2], sys.argv[3]
    needs = sys.argv[4] if len(sys.argv) > 4 else ''
    extra = sys.argv[5].split(',') if len(sys.argv) > 5 else []
    patch = os.path.join(source, 'patch.diff')
    demo = os.path.join(source, 'demo.py')
    # regenerate the patch from the worktree to be sure it is what is applied there
    diff = subprocess.run(['git', '-C', source, 'diff', '--', 'usim'], stdout=subprocess.PIPE).stdout
    if diff.strip():
        open(patch, 'wb').write(diff)
    clean = selftest.make_copy()
    dirty = selftest.make_copy()
    report = {'property': prop, 'name': name, 'needs_to_manifest': needs}
    try:
        subprocess.run(['patch', '-p1', '-s', '-i', patch], cwd=dirty, check=True)
        ok, tail = selftest.run_tests(dirty)
        report['repo_tests_pass_with_patch'] = ok
        report['repo_tests_tail'] = tail

        def run_demo(tree):
            # the script's own directory comes first on sys.path: run a copy inside the tree
            local = os.path.join(tree, 'demo_seed.py')
            shutil.copy(demo, local)
            proc = subprocess.run(['/venv/bin/python', local], cwd=tree,
                                  env=dict(os.environ, PYTHONPATH=tree), stdout=subprocess.PIPE,
                                  stderr=subprocess.STDOUT, timeout=600)
            return proc.returncode, proc.stdout.decode(errors='replace')[-600:]
        report['demo_exit_with_patch'], out_dirty = run_demo(dirty)
        report['demo_exit_without_patch'], out_clean = run_demo(clean)
        report['demo_output_with_patch'] = out_dirty
        results = {}
        for cid in [prop] + [c for c in extra if c != prop]:
            code, mechs, wall = selftest.run_check(dirty, cid, 1)
            results[cid] = {'exit': code, 'mechanisms': mechs, 'wall_s': wall}
        report['quick_checks'] = results
        report['caught_by'] = [cid for cid, res in results.items() if res['exit'] == 1]
        report['ran'] = [
            'patch -p1 < patch.diff on a scratch copy of /repo',
            '/venv/bin/python -m pytest -q -p no:cacheprovider -x  (with patch)',
            '/venv/bin/python demo.py  (with and without patch)',
        ] + ['VERIF_REPO=<patched copy> ./check %s --tier quick' % cid for cid in results]
    finally:
        shutil.rmtree(clean, ignore_errors=True)
        shutil.rmtree(dirty, ignore_errors=True)
    valid = (report.get('repo_tests_pass_with_patch') and report.get('demo_exit_with_patch') != 0
             and report.get('demo_exit_without_patch') == 0)
    report['valid'] = bool(valid)
    print(json.dumps({k: v for k, v in report.items() if k != 'demo_output_with_patch'}, indent=1))
    if valid:
        target = os.path.join(VERIF, 'seeded', name)
        os.makedirs(target, exist_ok=True)
        shutil.copy(patch, os.path.join(target, 'patch.diff'))
        shutil.copy(demo, os.path.join(target, 'demo.py'))
        with open(os.path.join(target, 'meta.json'), 'w') as stream:
            json.dump(report, stream, indent=1)
        print('stored in', target)
    else:
        print('NOT stored: the change does not meet the requirements')


if __name__ == '__main__':
    main()
