import json, sys, random
sys.path.insert(0, '/verif')
from usimmon.checks import c18
rec = json.load(open(sys.argv[1]))
case = rec['violation']['case']
print(rec['violation']['msg'][:500])
rng = random.Random('%s/%s/c18' % (case['seed'], case['index']))
spec = c18.Gen(rng).program()
print('events', spec['events'], 'callbacks', spec['callbacks'], 'roots', spec['roots'], 'initial', spec['initial_time'], 'until', spec['until'])
for name, steps in spec['procs'].items():
    print(name)
    for i, st in enumerate(steps): print('   ', i, st)
rw, ro, rr, rn = c18.run_reference(spec)
w, o, r, n, sess, _ = c18.run_usim(spec)
print('REF', ro, rr, rn); print('USIM', o, r, n)
for name in sorted(rw.logs):
    print(name, 'ref ', rw.logs[name]); print(name, 'usim', w.logs.get(name))
print('cb ref', rw.callback_log, 'usim', w.callback_log)
