#!/venv/bin/python
"""Apply each mutant (string replacement) to a scratch copy of /repo, run the repository's own
test suite and the listed quick checks against the copy, and write the kill matrix.

usage: tools/selftest.py [--only NAME[,NAME]] [--checks C01,C02] [--no-tests] [--scale X]
Mutants: mutants/mutants.json  [{name, file, old, new, expect: [check ids], note}]
Seeded changes from sub-agents: seeded/<id>/patch.diff + meta.json (property) are included.
"""
import argparse, json, os, shutil, subprocess, sys, tempfile, time

VERIF = os.path.dirname(os.path.dirname(os.path.abspath(__file__)))
REPO = '/repo'


def make_copy():
    tmp = tempfile.mkdtemp(prefix='usim_mut_', dir='/tmp')
    subprocess.run(['rsync', '-a', '--exclude', '.git', '--exclude', '__pycache__',
                    REPO + '/', tmp + '/'], check=True)
    return tmp


def run_tests(tree):
    proc = subprocess.run(
        ['/venv/bin/python', '-m', 'pytest', '-q', '-p', 'no:cacheprovider', '-x', '--timeout=300'],
        cwd=tree, env=dict(os.environ, PYTHONPATH=tree), stdout=subprocess.PIPE,
        stderr=subprocess.STDOUT)
    tail = proc.stdout.decode(errors='replace').strip().splitlines()[-1:]
    return proc.returncode == 0, tail[0] if tail else ''


def run_check(tree, cid, scale, tier='quick'):
    env = dict(os.environ, VERIF_REPO=tree, VERIF_SCALE=str(scale))
    started = time.time()
    proc = subprocess.run([os.path.join(VERIF, 'check'), cid, '--tier', tier], cwd=VERIF, env=env,
                          stdout=subprocess.PIPE, stderr=subprocess.STDOUT)
    out = proc.stdout.decode(errors='replace')
    mechs = sorted({line.split('[')[1].split(']')[0] for line in out.splitlines()
                    if ' x [' in line})
    return proc.returncode, mechs, round(time.time() - started, 1)


def main():
    parser = argparse.ArgumentParser()
    parser.add_argument('--only')
    parser.add_argument('--checks')
    parser.add_argument('--no-tests', action='store_true')
    parser.add_argument('--scale', default='1')
    parser.add_argument('--all-checks', action='store_true')
    parser.add_argument('--merge', action='store_true')
    args = parser.parse_args()
    with open(os.path.join(VERIF, 'mutants', 'mutants.json')) as stream:
        mutants = json.load(stream)
    seeded_dir = os.path.join(VERIF, 'seeded')
    if os.path.isdir(seeded_dir):
        for name in sorted(os.listdir(seeded_dir)):
            meta_path = os.path.join(seeded_dir, name, 'meta.json')
            if os.path.exists(meta_path):
                meta = json.load(open(meta_path))
                mutants.append({'name': 'seeded/' + name, 'patch': os.path.join(seeded_dir, name, 'patch.diff'),
                                'expect': meta['expect_checks'] if 'expect_checks' in meta
                                else [meta['property']] + meta.get('also', [])})
    if args.only:
        wanted = set(args.only.split(','))
        mutants = [m for m in mutants if m['name'] in wanted]
    all_checks = sorted(f[:-3].upper() for f in os.listdir(os.path.join(VERIF, 'usimmon', 'checks'))
                        if f.startswith('c') and f[1:3].isdigit())
    report = []
    for mutant in mutants:
        tree = make_copy()
        try:
            if 'patch' in mutant:
                subprocess.run(['patch', '-p1', '-s', '-i', mutant['patch']], cwd=tree, check=True)
            else:
                path = os.path.join(tree, mutant['file'])
                source = open(path).read()
                if source.count(mutant['old']) != 1:
                    print('MUTANT %s: pattern found %d times - skipped' % (
                        mutant['name'], source.count(mutant['old'])))
                    report.append({'name': mutant['name'], 'error': 'pattern not unique'})
                    continue
                open(path, 'w').write(source.replace(mutant['old'], mutant['new']))
            entry = {'name': mutant['name'], 'expect': mutant.get('expect', [])}
            if not args.no_tests:
                entry['tests_pass'], entry['tests_tail'] = run_tests(tree)
            checks = args.checks.split(',') if args.checks else (
                all_checks if args.all_checks else mutant.get('expect', []))
            entry['results'] = {}
            for cid in checks:
                if cid not in all_checks:
                    continue
                code, mechs, wall = run_check(tree, cid, args.scale)
                entry['results'][cid] = {'exit': code, 'mechanisms': mechs, 'wall': wall}
            entry['killed_by'] = [cid for cid, res in entry['results'].items() if res['exit'] == 1]
            report.append(entry)
            print('%-45s tests=%-5s killed_by=%s %s' % (
                mutant['name'], entry.get('tests_pass'), entry['killed_by'],
                {c: r['mechanisms'] for c, r in entry['results'].items() if r['exit'] == 1}))
        finally:
            shutil.rmtree(tree, ignore_errors=True)
    if not args.only and not args.checks:
        with open(os.path.join(VERIF, 'selftest_report.json'), 'w') as stream:
            json.dump(report, stream, indent=1)
    elif args.merge:
        # replace / add the entries of this run in the stored report
        path = os.path.join(VERIF, 'selftest_report.json')
        stored = json.load(open(path))
        fresh = {entry['name']: entry for entry in report}
        stored = [fresh.pop(entry['name'], entry) for entry in stored] + list(fresh.values())
        with open(path, 'w') as stream:
            json.dump(stored, stream, indent=1)


if __name__ == '__main__':
    main()
