#!/venv/bin/python
"""Run the quick check of its property against stored seeded changes again and record the result in
their meta.json (`quick_checks`), e.g. after a check was strengthened for a change it missed.

usage: tools/reverify.py <seeded name> [...]   |   tools/reverify.py --missed   (all whose record says exit 0)
"""
import json, os, shutil, subprocess, sys

VERIF = os.path.dirname(os.path.dirname(os.path.abspath(__file__)))
sys.path.insert(0, os.path.join(VERIF, 'tools'))
import selftest  # noqa: E402


def main():
    names = sys.argv[1:]
    seeded = os.path.join(VERIF, 'seeded')
    if names == ['--missed']:
        names = []
        for name in sorted(os.listdir(seeded)):
            meta = json.load(open(os.path.join(seeded, name, 'meta.json')))
            own = meta.get('quick_checks', {}).get(meta['property'], {})
            if own.get('exit') != 1 and not meta.get('own_check_note'):
                names.append(name)
    for name in names:
        path = os.path.join(seeded, name)
        meta = json.load(open(os.path.join(path, 'meta.json')))
        tree = selftest.make_copy()
        try:
            subprocess.run(['patch', '-p1', '-s', '-i', os.path.join(path, 'patch.diff')],
                           cwd=tree, check=True)
            code, mechs, wall = selftest.run_check(tree, meta['property'], 1)
        finally:
            shutil.rmtree(tree, ignore_errors=True)
        meta.setdefault('quick_checks', {})[meta['property']] = {
            'exit': code, 'mechanisms': mechs, 'wall_s': wall}
        meta['reverified'] = 'quick check of %s run again after it was strengthened' % meta['property']
        with open(os.path.join(path, 'meta.json'), 'w') as stream:
            json.dump(meta, stream, indent=1)
        print('%-60s exit=%s %s' % (name, code, mechs[:4]), flush=True)


if __name__ == '__main__':
    main()
