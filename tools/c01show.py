import json, sys
sys.path.insert(0, '/verif')
from usimmon.checks import c01
from usimmon.models.clock import ClockModel
from tools.showcase import show
rec = json.load(open(sys.argv[1]))
case = rec['violation']['case']
print(rec['violation']['msg'])
program = case['program']
show(program)
m = ClockModel(program)
res = c01.run_case(case)
from usimmon.probe import Session
from usimmon.prog import execute
sess = Session(); env, out = execute(program, sess)
for ev in sess.events:
    if ev[2] in ('begin',) or (ev[2] == 'end' and ev[3] == 'wait') or ev[2] in ('scope-left','exc'):
        key = 'begin:'+ev[1] if ev[2]=='begin' else (ev[4] if ev[2] == 'end' else '')
        print(ev, m.expect.get(key))
