"""print python sources with line numbers, docstrings removed (reading aid)"""
import ast, sys
def strip(path):
    src = open(path).read()
    tree = ast.parse(src)
    lines = src.splitlines()
    kill = set()
    for node in ast.walk(tree):
        if isinstance(node, (ast.FunctionDef, ast.AsyncFunctionDef, ast.ClassDef, ast.Module)):
            b = node.body
            if b and isinstance(b[0], ast.Expr) and isinstance(getattr(b[0], 'value', None), ast.Constant) and isinstance(b[0].value.value, str):
                for i in range(b[0].lineno, b[0].end_lineno + 1):
                    kill.add(i)
    for i, l in enumerate(lines, 1):
        if i not in kill and l.strip():
            print(f"{i}\t{l}")
for p in sys.argv[1:]:
    print("#####", p)
    strip(p)
