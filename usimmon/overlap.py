"""Two simulations alive at the same time in two threads.

Every property is stated for "a simulation"; whatever it says has to hold as well while another
thread of the process runs a simulation of its own (C15 says so explicitly, the other statements
do not exclude it).  This small, deterministic scenario is run once by every shard of every
check: a program over most primitives is run alone first, then twice at the same time in two
threads that hand the processor to each other *from inside activities* (ping-pong through a
condition variable, no timing involved), and both logs must equal the log of the lone run.
"""
import threading

from . import bootstrap  # noqa: F401

import usim
from usim import time, until, Scope, Flag, Lock, Queue, Channel, Resources, Pipe, Tracked
from usim import interval, collect, first, eternity


def simulation(pause):
    """run the program; ``pause()`` is called at a few points from inside activities"""
    log = []

    def note(*what):
        log.append(what + (time.now,))

    async def contender(lock, number):
        await (time + number * 0.25)
        async with lock:
            note('lock', number, lock.available)
            if number == 1:
                pause()
            await (time + 1)

    async def producer(queue, channel):
        for item in range(4):
            await (time + 0.5)
            await queue.put(item)
            await channel.put(item * 10)
            if item == 2:
                pause()
        await queue.close()
        await channel.close()

    async def consumer(queue):
        async for item in queue:
            note('got', item)

    async def listener(channel, name):
        async for message in channel:
            note('heard', name, message)

    async def waiter(flag, level):
        await flag
        note('flag seen')
        await (level >= 3)
        note('level reached', level.value)

    async def setter(flag, level):
        await (time + 2)
        pause()
        await flag.set()
        for _ in range(3):
            await (time + 0.25)
            await level.set(level.value + 1)

    async def borrower(resources, number):
        async with resources.borrow(a=2):
            note('borrowed', number, resources.levels.a)
            await (time + 1)
        note('returned', number)

    async def sender(pipe, volume):
        await pipe.transfer(volume)
        note('transferred', volume)

    async def ticker():
        async for now in interval(1):
            note('tick', now)
            if now >= 3:
                break

    async def quick(value, delay):
        await (time + delay)
        return value

    async def main():
        lock, queue, channel = Lock(), Queue(), Channel()
        flag, level = Flag(), Tracked(0)
        resources, pipe = Resources(a=2, b=1), Pipe(throughput=2)
        async with Scope() as scope:
            for number in range(3):
                scope.do(contender(lock, number))
            scope.do(producer(queue, channel))
            scope.do(consumer(queue))
            scope.do(listener(channel, 'x'))
            scope.do(listener(channel, 'y'))
            scope.do(waiter(flag, level))
            scope.do(setter(flag, level))
            scope.do(borrower(resources, 0))
            scope.do(borrower(resources, 1))
            scope.do(sender(pipe, 2))
            scope.do(sender(pipe, 4))
            scope.do(ticker())
            async with until(time + 2.5):
                await eternity
            note('until left')
            pause()
            note('collected', tuple(await collect(quick('a', 1), quick('b', 0.5))))
            async for winner in first(quick('slow', 2), quick('fast', 1)):
                note('first', winner)
        note('done')
        try:
            time.now
        except RuntimeError:
            note('clock lost')

    try:
        usim.run(main(), start=0)
        log.append(('run ended normally',))
    except BaseException as err:  # noqa: B902
        log.append(('run failed', type(err).__name__, str(err)[:120]))
    try:
        time.now
        log.append(('time.now readable after the run',))
    except RuntimeError:
        pass
    return log


class PingPong:
    def __init__(self):
        self.cond = threading.Condition()
        self.turn = 'A'
        self.done = set()
        self.switches = 0
        self.timed_out = False      # wall-clock watchdog fired: the run decides nothing

    def pause(self, me, other):
        with self.cond:
            self.turn = other
            self.switches += 1
            self.cond.notify_all()
            while self.turn != me and other not in self.done:
                if not self.cond.wait(timeout=60):
                    self.timed_out = True
                    break

    def begin(self, me, other):
        with self.cond:
            while self.turn != me and other not in self.done:
                if not self.cond.wait(timeout=60):
                    self.timed_out = True
                    break

    def finish(self, me, other):
        with self.cond:
            self.done.add(me)
            self.turn = other
            self.cond.notify_all()


def check():
    """-> (violations, stats)"""
    alone = simulation(lambda: None)
    if alone != simulation(lambda: None) or alone[-1] != ('run ended normally',):
        return [{'mechanism': 'harness-error', 'case': {'canary': 'overlap'},
                 'msg': 'the overlap scenario is not deterministic / does not end normally '
                        'when run alone: %s' % (alone[-3:],)}], {}
    # the same program started from clean-up code: while an exception is being handled in the
    # caller (sys.exc_info() is set for the whole run) - that is none of the simulation's business
    try:
        raise LookupError('being handled while the simulation runs')
    except LookupError:
        handled = simulation(lambda: None)
    if handled != alone:
        diff = next((index for index, pair in enumerate(zip(handled, alone))
                     if pair[0] != pair[1]), min(len(handled), len(alone)))
        return [{'mechanism': 'simulation-disturbed-by-exception-handled-by-the-caller',
                 'case': {'canary': 'overlap'},
                 'msg': 'a simulation run from inside an `except` block behaves differently '
                        'from the same program run normally: entry %d is %r instead of %r' % (
                            diff, handled[diff] if diff < len(handled) else None,
                            alone[diff] if diff < len(alone) else None)}], {}
    table = PingPong()
    logs = {}

    def thread(me, other):
        table.begin(me, other)
        try:
            logs[me] = simulation(lambda: table.pause(me, other))
        finally:
            table.finish(me, other)
    threads = [threading.Thread(target=thread, args=pair, name='simulation') for pair in (('A', 'B'), ('B', 'A'))]
    for item in threads:
        item.start()
    for item in threads:
        item.join(120)
    violations = []
    if table.timed_out or any(item.is_alive() for item in threads):
        # a hand-over did not happen within a minute (overloaded machine, or the simulations
        # block each other): no verdict from this scenario - wall-clock never decides
        return [], {'overlap_canary_runs': 1, 'overlap_canary_inconclusive': 1}
    for name in ('A', 'B'):
        got = logs.get(name)
        if got != alone:
            diff = next((index for index, pair in enumerate(zip(got or [], alone))
                         if pair[0] != pair[1]), min(len(got or []), len(alone)))
            violations.append({
                'mechanism': 'simulation-disturbed-by-simulation-in-other-thread',
                'case': {'canary': 'overlap'},
                'msg': 'simulation %s, run while another thread was in the middle of a '
                       'simulation of its own (%d hand-overs from inside activities), behaves '
                       'differently from the same program run alone: entry %d is %r instead of '
                       '%r' % (name, table.switches, diff,
                               (got or [None] * (diff + 1))[diff] if got and diff < len(got)
                               else None,
                               alone[diff] if diff < len(alone) else None)})
            break
    return violations, {'overlap_canary_runs': 1, 'overlap_hand_overs': table.switches}
