"""Check driver: shards cases over worker subprocesses, aggregates, decides, writes evidence.

Verdicts are three-valued:
  held          exit 0
  violated      line ``VIOLATION property=<id> replay=<path>``, exit 1
  inconclusive  line ``INCONCLUSIVE property=<id> reason=...``, exit 2
A violation that matches a ``known`` entry of known_findings.json (by property and
*mechanism*, never by seed or case) prints ``KNOWN-FINDING: ...`` and does not fail.
"""
import argparse
import concurrent.futures
import hashlib
import importlib
import json
import os
import shutil
import subprocess
import sys
import time

VERIF = os.path.dirname(os.path.dirname(os.path.abspath(__file__)))
PYTHON = os.environ.get('VERIF_PYTHON', '/venv/bin/python')

#: configurations sampled by every check (C02 *compares* across them instead)
CONFIGS = [
    {'name': 'base', 'env': {'PYTHONHASHSEED': '0'}, 'opt': False},
    {'name': 'sd', 'env': {'PYTHONHASHSEED': '1', 'USIM_WAITQUEUE': 'SD'}, 'opt': False},
    {'name': 'opt', 'env': {'PYTHONHASHSEED': '12345'}, 'opt': True},
    {'name': 'sd-opt-junk', 'env': {'PYTHONHASHSEED': '7', 'USIM_WAITQUEUE': 'SD',
                                    'VERIF_JUNK': '3'}, 'opt': True},
]


def load_known():
    path = os.path.join(VERIF, 'known_findings.json')
    try:
        with open(path) as stream:
            data = json.load(stream)
    except FileNotFoundError:
        return []
    return data.get('known', [])


def run_shard(cid, tier, seed, shard, nshards, workdir, timeout, extra_env=None):
    config = CONFIGS[shard % len(CONFIGS)]
    out = os.path.join(workdir, 'shard-%d.json' % shard)
    env = dict(os.environ)
    env.pop('USIM_WAITQUEUE', None)
    env.update(config['env'])
    env['PYTHONPATH'] = VERIF
    env['VERIF_CONFIG'] = config['name']
    if extra_env:
        env.update(extra_env)
    cover = os.environ.get('VERIF_COVER')
    if cover:
        # tools/cover.py: which lines of the library do the workloads reach? (diagnostic only)
        os.makedirs(cover, exist_ok=True)
        env['COVERAGE_FILE'] = os.path.join(cover, 'cov')
        launcher = ['-m', 'coverage', 'run', '-p', '--branch', '--source',
                    os.path.join(os.path.realpath(os.environ.get('VERIF_REPO', '/repo')), 'usim'),
                    '-m', 'usimmon.worker']
    else:
        launcher = ['-m', 'usimmon.worker']
    cmd = [PYTHON] + (['-O'] if config['opt'] else []) + launcher + [
        cid, tier, str(seed), str(shard), str(nshards), out]
    errpath = os.path.join(workdir, 'shard-%d.err' % shard)
    try:
        with open(errpath, 'wb') as err:
            proc = subprocess.run(cmd, cwd=VERIF, env=env, stdout=subprocess.DEVNULL,
                                  stderr=err, timeout=timeout)
    except subprocess.TimeoutExpired:
        # a shard that found a violation before it ran out of time has found a violation
        try:
            with open(out) as stream:
                result = json.load(stream)
        except (OSError, ValueError):
            result = None
        if result and result.get('violations'):
            result['shard'] = shard
            result['config'] = config['name']
            return result
        return {'shard': shard, 'error': 'timeout after %ss' % timeout}
    if proc.returncode != 0 or not os.path.exists(out):
        tail = ''
        try:
            with open(errpath, 'rb') as err:
                tail = err.read()[-1500:].decode('utf8', 'replace')
        except OSError:
            pass
        return {'shard': shard, 'error': 'worker exit %s: %s' % (proc.returncode, tail)}
    with open(out) as stream:
        result = json.load(stream)
    result['shard'] = shard
    result['config'] = config['name']
    return result


def main(argv=None):
    parser = argparse.ArgumentParser(prog='check')
    parser.add_argument('cid')
    parser.add_argument('--tier', default=os.environ.get('VERIF_TIER') or 'quick',
                        choices=['quick', 'thorough'])
    parser.add_argument('--replay')
    parser.add_argument('--shards', type=int, default=int(os.environ.get('VERIF_SHARDS', 16)))
    parser.add_argument('--scale', type=float, default=float(os.environ.get('VERIF_SCALE', 1)))
    args = parser.parse_args(argv)
    cid = args.cid.upper()
    seed = int(os.environ.get('VERIF_SEED', '0') or 0)
    if args.replay:
        return replay(cid, args.replay)
    started = time.time()
    sys.path.insert(0, VERIF)
    workdir = os.path.join(VERIF, '.work', '%s-%d' % (cid, os.getpid()))
    os.makedirs(workdir, exist_ok=True)
    timeout = 900 if args.tier == 'quick' else 4 * 3600
    extra_env = {'VERIF_SCALE': repr(args.scale)}
    nshards = max(1, args.shards)
    try:
        with concurrent.futures.ThreadPoolExecutor(nshards) as pool:
            futures = [
                pool.submit(run_shard, cid, args.tier, seed, shard, nshards, workdir,
                            timeout, extra_env)
                for shard in range(nshards)]
            results = [future.result() for future in futures]
    finally:
        shutil.rmtree(workdir, ignore_errors=True)
    return conclude(cid, args.tier, seed, results, time.time() - started)


def conclude(cid, tier, seed, results, wall):
    errors = [res for res in results if 'error' in res]
    good = [res for res in results if 'error' not in res]
    evaluations = sum(res['evaluations'] for res in good)
    sigs = set()
    for res in good:
        sigs.update(res['sigs'])
    stats = {}
    for res in good:
        for key, value in res['stats'].items():
            if isinstance(value, (int, float)):
                stats[key] = stats.get(key, 0) + value
            elif isinstance(value, list):
                merged = set(stats.get(key, []))
                merged.update(value)
                stats[key] = sorted(merged)
            elif isinstance(value, dict):
                merged = stats.setdefault(key, {})
                for sub, count in value.items():
                    merged[sub] = merged.get(sub, 0) + count
    samples = []
    for res in good:
        samples.extend(res.get('samples', [])[:1])
    samples = samples[:4]
    meta = good[0]['meta'] if good else {}
    violations = []
    for res in good:
        for vio in res['violations']:
            vio['config'] = res.get('config')
            violations.append(vio)
    known = [k for k in load_known() if k.get('property') == cid]
    known_hit = {}
    fresh = []
    for vio in violations:
        for entry in known:
            if entry.get('mechanism') == vio.get('mechanism'):
                known_hit.setdefault(entry['mechanism'], [entry, 0])[1] += 1
                break
        else:
            fresh.append(vio)
    inconclusive = []
    if errors:
        inconclusive.append('; '.join('shard %s: %s' % (e['shard'], e['error'])
                                      for e in errors)[:2000])
    if not good or evaluations == 0:
        inconclusive.append('no executions observed')
    for key in meta.get('required_stats', []):
        if not stats.get(key):
            inconclusive.append('deciding monitor counter %r is zero' % key)
    evidence = {
        'property_id': cid,
        'tier': tier,
        'seed': seed,
        'level': meta.get('level', 'exploration'),
        'coverage': {
            'evaluations': evaluations,
            'distinct_nontrivial': len(sigs),
            'rule': meta.get('rule', ''),
            'samples': samples,
            'exhaustive': bool(meta.get('exhaustive', False)),
            'counters': stats,
            'configurations': sorted({res.get('config') for res in good}),
            'known_findings_observed': {key: hit[1] for key, hit in known_hit.items()},
            'verdict': ('violated' if fresh else 'inconclusive' if inconclusive else 'held'),
        },
        'assumptions': meta.get('assumptions', []),
        'wall_s': round(wall, 2),
        'violations': len(fresh),
    }
    if inconclusive:
        evidence['coverage']['inconclusive_reasons'] = inconclusive
    # evidence/ only ever describes runs against /repo itself; runs against a scratch tree
    # (VERIF_REPO, used by the self-validation) leave their record under .work/
    repo = os.path.realpath(os.environ.get('VERIF_REPO', '/repo'))
    evidence_dir = os.path.join(VERIF, 'evidence') if repo == '/repo' else os.path.join(
        VERIF, '.work', 'evidence-scratch')
    evidence['coverage']['tree_under_test'] = repo
    os.makedirs(evidence_dir, exist_ok=True)
    with open(os.path.join(evidence_dir, '%s.json' % cid), 'w') as stream:
        json.dump(evidence, stream, indent=1, sort_keys=True, default=repr)
        stream.write('\n')
    print('%s tier=%s seed=%d evaluations=%d distinct_nontrivial=%d wall=%.1fs' % (
        cid, tier, seed, evaluations, len(sigs), wall))
    for key in sorted(stats):
        if isinstance(stats[key], (int, float)):
            print('  %s=%s' % (key, stats[key]))
    for mechanism, (entry, count) in sorted(known_hit.items()):
        print('KNOWN-FINDING: property=%s %s [%s] (observed %d times)' % (
            cid, entry.get('what', ''), mechanism, count))
    if fresh:
        os.makedirs(os.path.join(VERIF, 'replays'), exist_ok=True)
        seen = {}
        for vio in fresh:
            seen.setdefault(vio.get('mechanism'), []).append(vio)
        for mechanism, group in sorted(seen.items(), key=lambda kv: str(kv[0])):
            vio = group[0]
            blob = json.dumps(vio, sort_keys=True, default=repr)
            digest = hashlib.sha1(blob.encode()).hexdigest()[:10]
            path = os.path.join(VERIF, 'replays', '%s-%s.json' % (cid, digest))
            with open(path, 'w') as stream:
                json.dump({'property': cid, 'tier': tier, 'seed': seed,
                           'violation': vio}, stream, indent=1, default=repr)
            print('  %d x [%s] %s' % (len(group), mechanism, str(vio.get('msg'))[:300]))
            print('VIOLATION property=%s replay=%s' % (cid, path))
        return 1
    if inconclusive:
        for reason in inconclusive:
            print('INCONCLUSIVE property=%s reason=%s' % (cid, reason))
        return 2
    print('HELD property=%s' % cid)
    return 0


def replay(cid, path):
    with open(path) as stream:
        record = json.load(stream)
    vio = record['violation']
    env = dict(os.environ)
    env['PYTHONPATH'] = VERIF
    config = next((c for c in CONFIGS if c['name'] == vio.get('config')), CONFIGS[0])
    env.pop('USIM_WAITQUEUE', None)
    env.update(config['env'])
    cmd = [PYTHON] + (['-O'] if config['opt'] else []) + [
        '-m', 'usimmon.worker', '--replay', cid, path]
    return subprocess.run(cmd, cwd=VERIF, env=env).returncode


if __name__ == '__main__':
    sys.exit(main())
