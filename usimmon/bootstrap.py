"""Select the tree under test and make sure usim is imported from it."""
import os
import sys

REPO = os.path.realpath(os.environ.get('VERIF_REPO', '/repo'))
VERIF = os.path.dirname(os.path.dirname(os.path.abspath(__file__)))

if REPO not in sys.path[:1]:
    sys.path.insert(0, REPO)
if VERIF not in sys.path:
    sys.path.append(VERIF)

import usim  # noqa: E402

_where = os.path.realpath(usim.__file__)
if not _where.startswith(REPO + os.sep):
    sys.stderr.write(
        'usimmon: usim imported from %s, expected under %s\n' % (_where, REPO))
    sys.exit(3)
