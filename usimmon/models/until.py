"""Trigger-time model for C07 (no usim import).

A notification is a JSON spec over atoms (flags, one tracked integer per index, task
completion, time conditions).  The atoms are changed by one driver activity, at most one
change per virtual time, so "the notification holds at the end of time step t" is well
defined.  ``trigger_times`` returns the set of admissible trigger times of ``until(spec)``
entered at ``entry`` (more than one only when the entry coincides with a change that makes
the notification false again - order inside a time step is not the model's business).
"""
NEVER = None

CMP = {
    'lt': lambda a, b: a < b, 'le': lambda a, b: a <= b, 'eq': lambda a, b: a == b,
    'ne': lambda a, b: a != b, 'ge': lambda a, b: a >= b, 'gt': lambda a, b: a > b,
}


class Mode:
    """a value in the style of an enum member: totally ordered by its rank - and with an
    attribute `value` of its own, which has nothing to do with that order"""
    __slots__ = ('rank',)

    def __init__(self, rank):
        self.rank = rank

    @property
    def value(self):
        return Mode(3 - self.rank)

    def __eq__(self, other):
        return self.rank == other.rank if isinstance(other, Mode) else NotImplemented

    def __ne__(self, other):
        return self.rank != other.rank if isinstance(other, Mode) else NotImplemented

    def __lt__(self, other):
        return self.rank < other.rank if isinstance(other, Mode) else NotImplemented

    def __le__(self, other):
        return self.rank <= other.rank if isinstance(other, Mode) else NotImplemented

    def __gt__(self, other):
        return self.rank > other.rank if isinstance(other, Mode) else NotImplemented

    def __ge__(self, other):
        return self.rank >= other.rank if isinstance(other, Mode) else NotImplemented

    def __hash__(self):
        return hash(('mode', self.rank))

    def __repr__(self):
        return 'Mode(%d)' % self.rank


class Coarse:
    """a record that is equal to every other revision of itself (same key) but ordered by its
    priority: replacing it by an updated copy changes comparisons although old == new"""
    __slots__ = ('key', 'priority')

    def __init__(self, key, priority):
        self.key, self.priority = key, priority

    def __eq__(self, other):
        return self.key == other.key if isinstance(other, Coarse) else NotImplemented

    def __ne__(self, other):
        return self.key != other.key if isinstance(other, Coarse) else NotImplemented

    def __hash__(self):
        return hash(('coarse', self.key))

    def __lt__(self, other):
        return self.priority < other.priority if isinstance(other, Coarse) else NotImplemented

    def __le__(self, other):
        return self.priority <= other.priority if isinstance(other, Coarse) else NotImplemented

    def __gt__(self, other):
        return self.priority > other.priority if isinstance(other, Coarse) else NotImplemented

    def __ge__(self, other):
        return self.priority >= other.priority if isinstance(other, Coarse) else NotImplemented

    def __repr__(self):
        return 'Coarse(%r, %r)' % (self.key, self.priority)


def decode(value):
    """JSON encoding of values that are not numbers: {'set': [...]} and 'nan' (only partially
    ordered), {'mode': rank} (an object with a `value` attribute of its own)"""
    if isinstance(value, dict) and 'set' in value:
        return frozenset(value['set'])
    if isinstance(value, dict) and 'mode' in value:
        return Mode(value['mode'])
    if isinstance(value, dict) and 'coarse' in value:
        return Coarse(*value['coarse'])
    if value == 'nan':
        return float('nan')
    return value


def dates_in(spec):
    kind = spec['k']
    if kind in ('ge', 'eq', 'lt'):
        yield spec['t']
    elif kind in ('and', 'or'):
        for sub in spec['a']:
            yield from dates_in(sub)
    elif kind == 'inv':
        yield from dates_in(spec['a'])


def holds(spec, state, now):
    kind = spec['k']
    if kind == 'ge':
        return now >= spec['t']
    if kind == 'eq':
        return now == spec['t']
    if kind == 'lt':
        return now < spec['t']
    if kind == 'instant':
        return True
    if kind == 'eternity':
        return False
    if kind == 'flag':
        return bool(state['flags'][spec['f']]) != bool(spec.get('neg'))
    if kind == 'tracked':
        right = spec['v']
        if isinstance(right, dict) and 'i' in right:
            right = state['tracked'][right['i']]
        return CMP[spec['cmp']](decode(state['tracked'][spec['i']]), decode(right))
    if kind == 'done':
        return bool(state['done'].get(spec['task'], False)) != bool(spec.get('neg'))
    if kind == 'levels':
        # resource levels compare component-wise (a partial order): every field must satisfy
        levels = state['levels'][spec['r']]
        test = CMP[spec['cmp']]
        if spec['cmp'] == 'ne':
            return not all(levels[key] == spec['v'].get(key, 0) for key in levels)
        return all(test(levels[key], spec['v'].get(key, 0)) for key in levels)
    if kind == 'and':
        return all(holds(sub, state, now) for sub in spec['a'])
    if kind == 'or':
        return any(holds(sub, state, now) for sub in spec['a'])
    if kind == 'inv':
        return not holds(spec['a'], state, now)
    raise ValueError(spec)


def apply(state, change):
    what = change['what']
    if what == 'flag':
        state['flags'][change['i']] = change['v']
    elif what == 'tracked':
        state['tracked'][change['i']] = change['v']
    elif what == 'done':
        state['done'][change['task']] = True


def initial_state(objects):
    return {'flags': [False] * objects.get('flags', 0),
            'tracked': list(objects.get('tracked', [])), 'done': {}}


def state_at(objects, changes, limit, inclusive):
    state = initial_state(objects)
    for change in changes:
        if change['t'] < limit or (inclusive and change['t'] == limit):
            apply(state, change)
    return state


def trigger_times(spec, entry, objects, changes):
    """admissible trigger times (NEVER = never) of until(spec) entered at ``entry``"""
    if spec['k'] == 'delay':
        return {entry + spec['d']}
    changes = sorted(changes, key=lambda change: change['t'])
    candidates = sorted({entry} | {c['t'] for c in changes if c['t'] > entry}
                        | {d for d in dates_in(spec) if d > entry})
    results = set()

    def scan(position):
        """the notification has not fired before candidates[position]"""
        if position >= len(candidates):
            results.add(NEVER)
            return
        when = candidates[position]
        before = holds(spec, state_at(objects, changes, when, inclusive=False), when)
        after = holds(spec, state_at(objects, changes, when, inclusive=True), when)
        if after:
            results.add(when)           # holds at the end of the time step: fires in it
            return
        if before:
            # holds when the time step begins (a date is reached, or it held on entry) but a
            # change in the same step makes it false again: whether the subscriber / observer
            # looks before or after that change is order inside the step - both admissible
            results.add(when)
        scan(position + 1)
    scan(0)
    return results
