"""Exact processor-sharing fluid model of usim.Pipe (no usim import, Fractions only).

Each active transfer i progresses at  rate_i = l_i * min(1, T / sum of the limits of all active
transfers);  a transfer of volume V completes when the integral of its rate reaches V.
Participants are sequences of (offset, volume, limit); a participant can be removed at a given
time (cancelled / interrupted / closed), which frees its bandwidth at once.
"""
from fractions import Fraction

INF = float('inf')
TIE = Fraction(1, 10 ** 9)
#: what a float computation of a transfer may leave over of its volume by rounding alone
#: (a handful of windows, each exact to 2**-53): anything above this is a real remainder
TIE_REMAINING = Fraction(1, 10 ** 14)


def frac(value):
    return value if value == INF else Fraction(value)


def simulate(throughput, participants, removals):
    """participants: {name: [(offset, volume, limit|None), ...]}, removals: {name: time}
    returns (ends, ambiguous): ends[name] = list of completion times of its transfers,
    ambiguous = a removal coincides with a completion/start of the same participant"""
    capacity = frac(throughput)
    now = Fraction(0)
    state = {}
    for name, rounds in participants.items():
        state[name] = {'rounds': list(rounds), 'index': 0, 'phase': 'waiting',
                       'next': frac(rounds[0][0]) if rounds else None, 'remaining': None,
                       'limit': None, 'ends': [], 'gone': not rounds}
    removal = {name: frac(when) for name, when in removals.items()}
    ambiguous = False

    def rates():
        active = [st for st in state.values() if st['phase'] == 'transfer' and not st['gone']]
        total = sum((st['limit'] for st in active if st['limit'] != INF), Fraction(0))
        unlimited = [st for st in active if st['limit'] == INF]
        result = {}
        if capacity == INF:
            for st in active:
                result[id(st)] = st['limit']
            return result
        scale = min(Fraction(1), capacity / total) if total > 0 else Fraction(1)
        for st in active:
            result[id(st)] = st['limit'] * scale
        return result

    recent_done = []
    guard = 0
    while True:
        guard += 1
        if guard > 10000:
            raise RuntimeError('fluid model does not terminate')
        # start whatever is due, finish whatever is complete, remove whoever is struck - at `now`
        progress = True
        completed_now = []
        while progress:
            progress = False
            for name, st in state.items():
                if st['gone']:
                    continue
                if name in removal and removal[name] <= now:
                    if removal[name] == now and (
                            (st['phase'] == 'waiting' and st['next'] == now)
                            or (st['phase'] == 'transfer' and st['remaining'] == 0)):
                        ambiguous = True
                    st['gone'] = True
                    progress = True
                    continue
                if st['phase'] == 'waiting' and st['next'] is not None and st['next'] <= now:
                    offset, volume, limit = st['rounds'][st['index']]
                    st['phase'] = 'transfer'
                    st['remaining'] = frac(volume)
                    # no limit of its own (None or inf): whatever the pipe provides
                    st['limit'] = capacity if limit is None or limit == INF else frac(limit)
                    progress = True
                if st['phase'] == 'transfer' and (st['remaining'] == 0 or st['limit'] == INF):
                    st['ends'].append(now)
                    if st['rounds'][st['index']][1] != 0 and st['limit'] != INF:
                        completed_now.append(st['limit'])
                    st['index'] += 1
                    if st['index'] < len(st['rounds']):
                        st['phase'] = 'waiting'
                        st['next'] = now + frac(st['rounds'][st['index']][0])
                    else:
                        st['phase'] = 'done'
                        st['gone'] = True
                    progress = True
        if capacity != INF:
            # Ill-conditioned (near-)tie: a transfer completes at (nearly) the instant from which
            # on a transfer with a vastly larger limit starves it. The implementation computes in
            # floats; whether a rounding remainder of 1e-16 of the volume is left at that instant
            # decides between 'done now' and 'done after the large transfer'. Neither is wrong.
            recent_done = [(when, limit) for when, limit in recent_done
                           if now - when <= TIE * max(1, now)]
            recent_done.extend((now, limit) for limit in completed_now)
            active = [st for st in state.values() if st['phase'] == 'transfer' and not st['gone']]
            biggest = max((st['limit'] for st in active), default=0)
            small = [limit for _, limit in recent_done]
            small.extend(st['limit'] for st in active
                         if st['remaining'] <= TIE_REMAINING * frac(st['rounds'][st['index']][1]))
            if small and biggest > 10 ** 6 * min(small):
                ambiguous = True
        current = rates()
        candidates = []
        for name, st in state.items():
            if st['gone']:
                continue
            own = None
            if st['phase'] == 'waiting':
                own = st['next']
            elif st['phase'] == 'transfer':
                rate = current[id(st)]
                if rate > 0:
                    own = now + st['remaining'] / rate
            if own is not None:
                candidates.append(own)
            if name in removal:
                candidates.append(removal[name])
                # strike times are floats read from the real clock: a strike that (nearly)
                # coincides with the participant's own start/completion cannot be ordered
                if own is not None and abs(own - removal[name]) <= Fraction(1, 10 ** 9) * max(
                        1, abs(removal[name])):
                    ambiguous = True
        # (a transfer of infinite volume never completes by itself)
        candidates = [when for when in candidates if when > now and when != INF]
        if not candidates:
            break
        then = min(candidates)
        for st in state.values():
            if not st['gone'] and st['phase'] == 'transfer':
                moved = current[id(st)] * (then - now)
                st['remaining'] = max(Fraction(0), st['remaining'] - moved)
        now = then
    return {name: st['ends'] for name, st in state.items()}, ambiguous
