"""Clock model for C01 (no usim import): when must every timed wait resume?

Programs are restricted to waits on time notifications, nested Scope/until blocks with
*time* notifications and children started now / after d / at t.  For these the resume time
of every wait follows from plain arithmetic.  Expectations:

    ('at', t)    must resume exactly at virtual time t
    ('never',)   must never resume
    ('tie', t)   the enclosing block is struck at t as well: may resume at t or never
                 (order inside a time step is not the model's business - DESIGN R2)
"""
import functools


@functools.total_ordering
class _Never:
    """later than every date, including the (reachable) date ``inf``"""
    def __eq__(self, other):
        return other is self

    def __lt__(self, other):
        return False

    def __hash__(self):
        return 0

    def __repr__(self):
        return 'NEVER'


INF = _Never()      # historical name: "never", *not* the float infinity
MINUS = float('-inf')


def resume_time(now, notif):
    kind = notif['k']
    if now is INF:
        return INF
    if kind == 'delay':
        return now + notif['d']
    if kind == 'instant':
        return now
    if kind == 'eternity':
        return INF
    if now is INF:
        return INF
    if kind == 'ge':
        return max(now, notif['t'])
    if kind == 'eq':
        return notif['t'] if notif['t'] >= now else INF
    if kind == 'lt':
        return now if now < notif['t'] else INF
    raise ValueError(notif)


class ClockModel:
    def __init__(self, program):
        self.expect = {}
        start = program.get('start', 0)
        for root in program['roots']:
            self.expect['begin:' + root['name']] = ('at', start)
            self.seq(root['steps'], start, INF)

    def never(self, steps):
        for step in steps:
            if step['op'] == 'wait':
                self.expect[step['id']] = ('never',)
            elif step['op'] == 'scope':
                self.never(step['body'])
                for child in step.get('children', ()):
                    self.expect['begin:' + child['name']] = ('never',)
                    self.never(child['steps'])

    def seq(self, steps, now, deadline):
        """returns the completion time of the sequence (INF if it is cut short or hangs)"""
        for index, step in enumerate(steps):
            if step['op'] == 'wait':
                when = resume_time(now, step['n'])
                if when < deadline:
                    self.expect[step['id']] = ('at', when)
                elif when == deadline and when is not INF:
                    self.expect[step['id']] = ('tie', when)
                else:
                    self.expect[step['id']] = ('never',)
                    self.never(steps[index + 1:])
                    return INF
                now = when
            elif step['op'] == 'scope':
                end = self.block(step, now, deadline)
                if end is INF:
                    self.never(steps[index + 1:])
                    return INF
                now = end
            elif step['op'] == 'nested':
                pass        # a complete simulation of its own: takes no time of this one
            else:
                raise ValueError(step)
        return now

    def child(self, child, now, deadline):
        if child.get('after') is not None:
            start = now + child['after']
        elif child.get('at') is not None:
            if child['at'] < now:
                # a start date in the past is a usage error: the harness does not spawn it
                self.expect['begin:' + child['name']] = ('never',)
                self.never(child['steps'])
                return MINUS
            start = child['at']
        else:
            start = now
        key = 'begin:' + child['name']
        if start < deadline:
            self.expect[key] = ('at', start)
        elif start == deadline and start is not INF:
            self.expect[key] = ('tie', start)
        else:
            self.expect[key] = ('never',)
            self.never(child['steps'])
            return INF
        return self.seq(child['steps'], start, deadline)

    def block(self, step, now, deadline):
        trigger = resume_time(now, step['n']) if step.get('n') else INF
        inner = min(deadline, trigger)
        completion = self.seq(step['body'], now, inner)
        volatile = []
        for child in step.get('children', ()):
            if child.get('volatile'):
                volatile.append(child)
            else:
                completion = max(completion, self.child(child, now, inner))
        end = min(inner, completion)
        for child in volatile:
            self.child(child, now, end)
        return end
