"""Sequential reference models of the SimPy resource types for C19 (no usim import).

Written from the statement: service is head-of-queue in policy order (FilterStore excepted:
a request whose filter matches nothing does not block later ones); queues are (re-)evaluated on a
new request of that kind and whenever a put / get / release has been granted (then the opposite
queue is looked at), *not* on cancel.  Requests are identified by their operation index.
"""


class Model:
    def __init__(self):
        self.put_queue = []      # pending put-side requests (dicts), in policy order
        self.get_queue = []
        self.granted = {}        # op index -> value
        self.preemptions = []    # (victim op, by op, usage_since)
        self.now = 0

    # -- to be provided by the concrete models --
    def do_put(self, request):
        raise NotImplementedError

    def do_get(self, request):
        raise NotImplementedError

    def insert_put(self, request):
        self.put_queue.append(request)

    def insert_get(self, request):
        self.get_queue.append(request)

    def serve_puts(self):
        served = 0
        while self.put_queue and self.do_put(self.put_queue[0]):
            self.put_queue.pop(0)
            served += 1
        return served

    def serve_gets(self):
        served = 0
        while self.get_queue and self.do_get(self.get_queue[0]):
            self.get_queue.pop(0)
            served += 1
        return served

    def cascade(self, start):
        """grants on one side are followed by a look at the other side, until nothing moves"""
        side = start
        served = self.serve_puts() if side == 'put' else self.serve_gets()
        while served:
            side = 'get' if side == 'put' else 'put'
            served = self.serve_puts() if side == 'put' else self.serve_gets()

    def put(self, request):
        self.insert_put(request)
        self.cascade('put')

    def get(self, request):
        self.insert_get(request)
        self.cascade('get')

    def cancel(self, index):
        if index in self.granted:
            return
        self.put_queue = [req for req in self.put_queue if req['op'] != index]
        self.get_queue = [req for req in self.get_queue if req['op'] != index]

    def grant(self, request, value=None):
        self.granted[request['op']] = value

    def snapshot(self):
        return {'granted': dict(self.granted),
                'put_queue': [req['op'] for req in self.put_queue],
                'get_queue': [req['op'] for req in self.get_queue]}


class ContainerModel(Model):
    def __init__(self, capacity, init):
        super().__init__()
        self.capacity = capacity
        self.level = init

    def do_put(self, request):
        if self.capacity - self.level >= request['amount']:
            self.level += request['amount']
            self.grant(request)
            return True
        return False

    def do_get(self, request):
        if self.level >= request['amount']:
            self.level -= request['amount']
            self.grant(request)
            return True
        return False

    def snapshot(self):
        snap = super().snapshot()
        snap['level'] = self.level
        return snap


class StoreModel(Model):
    def __init__(self, capacity):
        super().__init__()
        self.capacity = capacity
        self.items = []

    def do_put(self, request):
        if len(self.items) < self.capacity:
            self.store(request['item'])
            self.grant(request)
            return True
        return False

    def store(self, item):
        self.items.append(item)

    def do_get(self, request):
        if self.items:
            self.grant(request, self.items.pop(0))
            return True
        return False

    def snapshot(self):
        snap = super().snapshot()
        snap['items'] = list(self.items)
        return snap


class PriorityStoreModel(StoreModel):
    def store(self, item):
        # smallest priority first, first come first served among equals
        position = len(self.items)
        for index, other in enumerate(self.items):
            if item[0] < other[0]:
                position = index
                break
        self.items.insert(position, item)


class FilterStoreModel(StoreModel):
    def serve_gets(self):
        # every pending request is looked at in order; one whose filter matches nothing waits
        # without blocking the requests behind it
        served = 0
        remaining = []
        for request in self.get_queue:
            index = next((i for i, item in enumerate(self.items)
                          if request['accept'](item)), None)
            if index is None:
                remaining.append(request)
            else:
                self.grant(request, self.items.pop(index))
                served += 1
        self.get_queue = remaining
        return served


class ResourceModel(Model):
    def __init__(self, capacity):
        super().__init__()
        self.capacity = capacity
        self.users = []          # op indices of granted, unreleased requests

    def do_put(self, request):
        if len(self.users) < self.capacity:
            self.users.append(request['op'])
            request['usage_since'] = self.now
            self.grant(request)
            return True
        return False

    def do_get(self, request):       # a release: always succeeds, idempotent
        if request['request'] in self.users:
            self.users.remove(request['request'])
        self.grant(request)
        return True

    def snapshot(self):
        snap = super().snapshot()
        snap['users'] = sorted(self.users)
        return snap


class PriorityResourceModel(ResourceModel):
    def key(self, request):
        return (request['priority'], request['time'], not request['preempt'])

    def insert_put(self, request):
        request['time'] = self.now
        position = len(self.put_queue)
        for index, other in enumerate(self.put_queue):
            if self.key(request) < self.key(other):
                position = index
                break
        self.put_queue.insert(position, request)


class PreemptiveResourceModel(PriorityResourceModel):
    def __init__(self, capacity):
        super().__init__(capacity)
        self.requests = {}

    def insert_put(self, request):
        super().insert_put(request)
        self.requests[request['op']] = request

    def do_put(self, request):
        if len(self.users) >= self.capacity and request['preempt']:
            # the worst user; among users that rank equally the statement does not say which
            # one goes - the one that got the resource last is taken (a stable sorted container)
            worst = self.users[0]
            for op in self.users:
                if self.key(self.requests[op]) >= self.key(self.requests[worst]):
                    worst = op
            if self.key(request) < self.key(self.requests[worst]):
                self.users.remove(worst)
                self.preemptions.append(
                    (worst, request['op'], self.requests[worst]['usage_since']))
        return super().do_put(request)
