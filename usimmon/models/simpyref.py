"""Reference kernel for C18: a small, independent implementation of SimPy's event semantics
(heap of (time, priority, sequence) entries, callbacks, processes as generators, interrupts,
conditions).  It does not import usim.  Written from the SimPy documentation / the statement
of C18; in particular ``interrupt`` of a finished process is *ignored* (statement), and
``run(until=t)`` leaves ``now == t``.
"""
import heapq

PENDING = object()
URGENT = 0
NORMAL = 1


class Interrupt(Exception):
    @property
    def cause(self):
        return self.args[0]


class StopSimulation(Exception):
    pass


class EmptySchedule(Exception):
    pass


class ConditionValue:
    def __init__(self):
        self.events = []

    def __getitem__(self, key):
        if key not in self.events:
            raise KeyError(key)
        return key._value

    def __contains__(self, key):
        return key in self.events

    def __iter__(self):
        return iter(self.events)

    def keys(self):
        return iter(self.events)

    def values(self):
        return (event._value for event in self.events)

    def items(self):
        return ((event, event._value) for event in self.events)

    def todict(self):
        return dict(self.items())


class Event:
    def __init__(self, env):
        self.env = env
        self.callbacks = []
        self._value = PENDING
        self._ok = None
        self._defused = False

    @property
    def triggered(self):
        return self._value is not PENDING

    @property
    def processed(self):
        return self.callbacks is None

    @property
    def ok(self):
        return self._ok

    @property
    def defused(self):
        return self._defused

    @defused.setter
    def defused(self, value):
        self._defused = value

    @property
    def value(self):
        if self._value is PENDING:
            raise AttributeError('value not yet available')
        return self._value

    def trigger(self, event):
        self._ok = event._ok
        self._value = event._value
        self.env.schedule(self)

    def succeed(self, value=None):
        if self._value is not PENDING:
            raise RuntimeError('%r has already been triggered' % self)
        self._ok = True
        self._value = value
        self.env.schedule(self)
        return self

    def fail(self, exception):
        if self._value is not PENDING:
            raise RuntimeError('%r has already been triggered' % self)
        if not isinstance(exception, BaseException):
            raise ValueError('%r is not an exception' % (exception,))
        self._ok = False
        self._value = exception
        self.env.schedule(self)
        return self

    def __and__(self, other):
        return Condition(self.env, Condition.all_events, [self, other])

    def __or__(self, other):
        return Condition(self.env, Condition.any_events, [self, other])


class Timeout(Event):
    def __init__(self, env, delay, value=None):
        if delay < 0:
            raise ValueError('negative delay %r' % delay)
        super().__init__(env)
        self._delay = delay
        self._ok = True
        self._value = value
        env.schedule(self, NORMAL, delay)


class Initialize(Event):
    def __init__(self, env, process):
        super().__init__(env)
        self.callbacks = [process._resume]
        self._ok = True
        self._value = None
        env.schedule(self, URGENT)


class Interruption(Event):
    def __init__(self, process, cause):
        super().__init__(process.env)
        self.callbacks = [self._interrupt]
        self._value = Interrupt(cause)
        self._ok = False
        self._defused = True
        self.process = process
        self.consumed = False
        process._interruptions.append(self)
        self.env.schedule(self, URGENT)

    def _interrupt(self, event):
        process = self.process
        if self.consumed:
            return
        self.consumed = True
        if self in process._interruptions:
            process._interruptions.remove(self)
        if process._value is not PENDING:
            return
        target = process._target
        if target is not None and target.callbacks is not None:
            try:
                target.callbacks.remove(process._resume)
            except ValueError:
                pass
        process._resume(self)


class Process(Event):
    def __init__(self, env, generator):
        if not hasattr(generator, 'throw'):
            raise ValueError('%r is not a generator' % (generator,))
        super().__init__(env)
        self._generator = generator
        self._interruptions = []
        self._target = Initialize(env, self)

    @property
    def is_alive(self):
        return self._value is PENDING

    @property
    def target(self):
        return self._target

    def interrupt(self, cause=None):
        if self._value is not PENDING:
            return      # statement: ignored for a finished process
        Interruption(self, cause)

    def _resume(self, event):
        env = self.env
        env.active_process = self
        while True:
            try:
                if event._ok:
                    event = self._generator.send(event._value)
                else:
                    event._defused = True
                    event = self._generator.throw(event._value)
            except StopIteration as stop:
                event = None
                self._ok = True
                self._value = stop.args[0] if stop.args else None
                env.schedule(self)
                break
            except BaseException as exc:  # noqa: B902
                event = None
                self._ok = False
                self._value = exc
                env.schedule(self)
                break
            if event.callbacks is not None:
                event.callbacks.append(self._resume)
                break
            # The process yielded an event that has been processed already.  Statement of C18:
            # interrupts are raised "one per yield in call order" - also at such a yield (SimPy
            # itself would only deliver at the next yield that really waits).
            if self._interruptions:
                event = self._interruptions.pop(0)
                event.consumed = True
        self._target = event
        env.active_process = None


class Condition(Event):
    def __init__(self, env, evaluate, events):
        super().__init__(env)
        self._evaluate = evaluate
        self._events = tuple(events)
        self._count = 0
        if not self._events:
            self.succeed(ConditionValue())
            return
        for event in self._events:
            if event.callbacks is None:
                self._check(event)
            else:
                event.callbacks.append(self._check)
        self.callbacks.append(self._build_value)

    def _populate(self, value):
        for event in self._events:
            if isinstance(event, Condition):
                event._populate(value)
            elif event.callbacks is None:
                value.events.append(event)

    def _build_value(self, event):
        if event._ok:
            self._value = ConditionValue()
            self._populate(self._value)

    def _check(self, event):
        if self._value is not PENDING:
            return
        self._count += 1
        if not event._ok:
            event._defused = True
            self.fail(event._value)
        elif self._evaluate(self._events, self._count):
            self.succeed()

    @staticmethod
    def all_events(events, count):
        return len(events) == count

    @staticmethod
    def any_events(events, count):
        return count > 0 or len(events) == 0


class Environment:
    def __init__(self, initial_time=0):
        self._now = initial_time
        self._queue = []
        self._eid = 0
        self.active_process = None

    @property
    def now(self):
        return self._now

    def schedule(self, event, priority=NORMAL, delay=0):
        self._eid += 1
        heapq.heappush(self._queue, (self._now + delay, priority, self._eid, event))

    def event(self):
        return Event(self)

    def timeout(self, delay, value=None):
        return Timeout(self, delay, value)

    def process(self, generator):
        return Process(self, generator)

    def all_of(self, events):
        return Condition(self, Condition.all_events, list(events))

    def any_of(self, events):
        return Condition(self, Condition.any_events, list(events))

    def step(self):
        try:
            self._now, _, _, event = heapq.heappop(self._queue)
        except IndexError:
            raise EmptySchedule()
        callbacks, event.callbacks = event.callbacks, None
        for callback in callbacks:
            callback(event)
        if not event._ok and not event._defused:
            raise event._value

    def run(self, until=None):
        if until is not None:
            if not isinstance(until, Event):
                at = until
                # (SimPy rejects at == now as well; usim.py documents and tests run(until=now):
                # "stops exactly at the given time" - the run ends within the current time step)
                if at < self._now:
                    raise ValueError('until must be in the future')
                until = Event(self)
                until._ok = True
                until._value = None
                self.schedule(until, URGENT, at - self._now)
            elif until.callbacks is None:
                return until._value
            until.callbacks.append(self._stop)
        try:
            while True:
                self.step()
        except StopSimulation as stop:
            return stop.args[0]
        except EmptySchedule:
            if until is not None and not until.triggered:
                raise RuntimeError('no scheduled events left but "until" was not triggered')
        return None

    @staticmethod
    def _stop(event):
        # usim.py documents run() -> Union[None, V, Exception]: a failed `until` event ends the
        # run and its exception is *returned* (SimPy would raise it); the statement only says
        # "returns its value", and the value of a failed event is its exception
        event._defused = True
        raise StopSimulation(event._value)
