"""Execute generated programs in *this* process configuration and print one digest per program.

usage: python [-O] -m usimmon.c02trace <seed> <first> <last> [--full <index>]
The configuration (PYTHONHASHSEED, USIM_WAITQUEUE, VERIF_JUNK, -O) comes from the environment.
"""
import hashlib
import json
import random
import sys

from . import bootstrap  # noqa: F401
from .gen import Gen
from .prog import execute
from .probe import Session

FANOUT = {
    'wait': 14, 'setflag': 8, 'settracked': 10, 'lock': 4, 'put': 6, 'get': 5, 'iter': 3,
    'close': 2, 'borrow': 5, 'resource': 4, 'transfer': 4, 'scope': 6, 'until': 5,
    'spawn': 2, 'cancel': 3, 'await_task': 3, 'raise': 0.7, 'ticker': 2, 'collect': 2,
    'first': 1,
}


def fanout_program(rng):
    """many waiters on *different* condition objects over the same few values, one driver"""
    gen = Gen(rng, weights=FANOUT)
    gen.program()       # only to initialise gen.objects
    roots = []
    n_wait = rng.randint(3, 9)
    for index in range(n_wait):
        steps = []
        for _ in range(rng.randint(1, 3)):
            roll = rng.random()
            if roll < 0.45:
                notif = {'k': 'tracked', 'i': rng.randrange(2),
                         'cmp': rng.choice(['lt', 'le', 'eq', 'ne', 'ge', 'gt']),
                         'v': rng.randint(0, 4)}
            elif roll < 0.6:
                notif = {'k': 'levels', 'r': 0, 'cmp': rng.choice(['ge', 'le', 'eq', 'gt']),
                         'v': {'a': rng.randint(0, 5), 'b': rng.randint(0, 3)}}
            elif roll < 0.8:
                notif = {'k': 'flag', 'f': rng.randrange(3), 'neg': rng.random() < 0.4}
            else:
                notif = gen.cond()
            steps.append({'op': 'wait', 'n': notif, 'id': gen.next_id('s')})
            if rng.random() < 0.3:
                steps.append(rng.choice([
                    {'op': 'borrow', 'r': 0, 'amounts': {'a': rng.randint(0, 3)}, 'claim': False,
                     'body': [{'op': 'wait', 'n': {'k': 'delay', 'd': rng.choice([0.5, 1])},
                               'id': gen.next_id('s')}], 'id': gen.next_id('s')},
                    {'op': 'put', 'kind': 'queues', 'q': 0, 'item': gen.next_id('i'),
                     'id': gen.next_id('s')},
                    {'op': 'get', 'kind': rng.choice(['queues', 'channels']), 'q': 0,
                     'id': gen.next_id('s')},
                ]))
        roots.append({'name': 'w%d' % index, 'steps': steps})
    final_changes = []
    if rng.random() < 0.5:
        # one comparison object that is negated again and again: in a block that is left, and
        # later in a plain wait - whatever the collector has done to the first negation meanwhile
        for index in range(rng.randint(1, 3)):
            shared = {'k': 'tracked', 'i': rng.randrange(2), 'cmp': rng.choice(['lt', 'le', 'ne']),
                      'v': rng.randint(1, 3), 'share': 'neg%d' % index}
            left_at = rng.choice([0.5, 1])
            steps = [
                {'op': 'scope', 'id': gen.next_id('s'), 'n': {'k': 'inv', 'a': dict(shared)},
                 'catch': False, 'children': [], 'body': [
                     {'op': 'wait', 'n': {'k': 'delay', 'd': left_at},
                      'id': gen.next_id('s')}]},
                {'op': 'wait', 'n': {'k': 'delay', 'd': rng.choice([0.5, 1])},
                 'id': gen.next_id('s')},
                {'op': 'wait', 'n': {'k': 'inv', 'a': dict(shared)}, 'id': gen.next_id('s')}]
            roots.insert(rng.randrange(len(roots) + 1), {'name': 'n%d' % index, 'steps': steps})
            # ... while somebody else makes a comparison of his own on the same value in
            # between; one last change wakes both of them in one time step
            roots.insert(rng.randrange(len(roots) + 1), {'name': 'm%d' % index, 'steps': [
                {'op': 'wait', 'n': {'k': 'delay', 'd': left_at + 0.25}, 'id': gen.next_id('s')},
                {'op': 'wait', 'n': {'k': 'tracked', 'i': shared['i'], 'v': shared['v'], 'cmp': {
                    'lt': 'ge', 'le': 'gt', 'ne': 'eq'}[shared['cmp']]}, 'id': gen.next_id('s')}]})
            final_changes.append({'op': 'settracked', 'i': shared['i'],
                                  'v': shared['v'] + (0 if shared['cmp'] == 'ne' else 1),
                                  'id': gen.next_id('s')})
    if rng.random() < 0.4:
        # connectives in which the same condition *objects* occur more than once, next to
        # activities that wait for those objects one by one
        date = rng.choice([1, 1.5, 2])
        pool = [{'k': rng.choice(['ge', 'eq']), 't': date, 'share': 'rep%d' % index}
                for index in range(rng.randint(2, 4))]
        how = rng.choice(['or', 'and'])
        first_half = [dict(spec) for spec in pool]
        second_half = [dict(spec) for spec in reversed(pool)]
        repeated = {'k': how, 'a': [{'k': how, 'a': first_half}, {'k': how, 'a': second_half}]}
        roots.insert(rng.randrange(len(roots) + 1),
                     {'name': 'rep', 'steps': [{'op': 'wait', 'n': repeated,
                                                'id': gen.next_id('s')}]})
        for index, spec in enumerate(pool):
            roots.insert(rng.randrange(len(roots) + 1),
                         {'name': 'rep%d' % index, 'steps': [
                             {'op': 'wait', 'n': {'k': 'delay', 'd': 0.5}, 'id': gen.next_id('s')},
                             {'op': 'wait', 'n': dict(spec), 'id': gen.next_id('s')},
                             {'op': 'setflag', 'f': index % 3, 'v': True,
                              'id': gen.next_id('s')}]})
    driver = []
    for _ in range(rng.randint(2, 8)):
        roll = rng.random()
        if roll < 0.35:
            driver.append({'op': 'settracked', 'i': rng.randrange(2), 'v': rng.randint(0, 4),
                           'id': gen.next_id('s')})
        elif roll < 0.5:
            driver.append({'op': 'resource', 'r': 0, 'how': rng.choice(['increase', 'set', 'decrease']),
                           'amounts': {rng.choice(['a', 'b']): rng.randint(0, 3)},
                           'id': gen.next_id('s')})
        elif roll < 0.7:
            driver.append({'op': 'setflag', 'f': rng.randrange(3), 'v': rng.random() < 0.6,
                           'id': gen.next_id('s')})
        elif roll < 0.8:
            driver.append({'op': 'put', 'kind': rng.choice(['queues', 'channels']), 'q': 0,
                           'item': gen.next_id('i'), 'id': gen.next_id('s')})
        else:
            driver.append({'op': 'wait', 'n': {'k': 'delay', 'd': rng.choice([0.5, 1, 1])},
                           'id': gen.next_id('s')})
    if final_changes:
        driver.append({'op': 'wait', 'n': {'k': 'ge', 't': 9}, 'id': gen.next_id('s')})
        driver.extend(final_changes)
    roots.insert(rng.randrange(len(roots) + 1), {'name': 'driver', 'steps': driver})
    return {'objects': gen.objects, 'roots': roots, 'start': 0, 'till': None}


def pipe_program(rng):
    """several overlapping transfers over congested pipes with inexact decimal limits and
    volumes: whatever sums or scales them must do so in an order that is the same in every run"""
    gen = Gen(rng, weights=FANOUT)
    gen.program()       # only to initialise gen.objects
    gen.objects['pipes'] = [rng.choice([0.9, 1.3, 2]), rng.choice([0.7, 3])]
    decimals = [0.1, 0.2, 0.3, 0.7, 1.1, 1.3, 1.7, 2.3]
    roots = []
    for index in range(rng.randint(3, 8)):
        steps = []
        if rng.random() < 0.5:
            steps.append({'op': 'wait', 'n': {'k': 'delay', 'd': rng.choice([0.1, 0.3, 0.5, 1])},
                          'id': gen.next_id('s')})
        for _ in range(rng.randint(1, 3)):
            steps.append({'op': 'transfer', 'p': 0 if rng.random() < 0.8 else 1,
                          'v': rng.choice([0.3, 0.7, 1, 1.9, 4.2]),
                          'limit': rng.choice(decimals + [None]), 'id': gen.next_id('s')})
            if rng.random() < 0.3:
                steps.append({'op': 'setflag', 'f': rng.randrange(3), 'v': True,
                              'id': gen.next_id('s')})
        roots.append({'name': 'x%d' % index, 'steps': steps})
    return {'objects': gen.objects, 'roots': roots, 'start': rng.choice([0, 0, 0.2]),
            'till': None}


def crowd_program(rng):
    """hundreds of activities: many distinct dates pending at once and long same-time queues"""
    gen = Gen(rng, weights=FANOUT)
    gen.program()
    roots = []
    size = rng.choice([70, 150, 300])
    order = list(range(size))
    rng.shuffle(order)
    for index in order:
        steps = [{'op': 'wait', 'n': {'k': 'delay', 'd': 0.125 * (1 + index % rng.choice([7, 97]))},
                  'id': gen.next_id('s')},
                 {'op': 'setflag', 'f': index % 3, 'v': index % 2 == 0, 'id': gen.next_id('s')}]
        if index % 4 == 0:
            steps.append({'op': 'wait', 'n': {'k': 'ge', 't': 40 - 0.125 * index},
                          'id': gen.next_id('s')})
        roots.append({'name': 'm%d' % index, 'steps': steps})
    return {'objects': gen.objects, 'roots': roots, 'start': 0, 'till': None}


def integer_clock_program(rng):
    """an exact integer clock beyond float precision: integer start, delays and dates only -
    dates that differ by 1 are different dates although they round to the same float"""
    gen = Gen(rng, weights=FANOUT)
    gen.program()
    start = rng.choice([2 ** 53, 2 ** 60, 10 ** 17])
    roots = []
    for index in range(rng.randint(3, 9)):
        steps = []
        for _ in range(rng.randint(1, 4)):
            roll = rng.random()
            if roll < 0.5:
                notif = {'k': 'delay', 'd': rng.choice([1, 1, 2, 3, 5])}
            elif roll < 0.8:
                notif = {'k': rng.choice(['ge', 'ge', 'eq']), 't': start + rng.randint(0, 9)}
            else:
                notif = {'k': 'instant'}
            steps.append({'op': 'wait', 'n': notif, 'id': gen.next_id('s')})
            if rng.random() < 0.4:
                steps.append({'op': 'setflag', 'f': rng.randrange(3), 'v': rng.random() < 0.6,
                              'id': gen.next_id('s')})
        roots.append({'name': 'i%d' % index, 'steps': steps})
    return {'objects': gen.objects, 'roots': roots, 'start': start, 'till': None}


D15_CANARY = {
    'objects': {}, 'start': 0, 'till': None,
    'roots': [{'name': 'r0', 'steps': [
        {'op': 'scope', 'id': 's1', 'n': None, 'catch': False, 'body': [], 'children': [
            {'name': 't1', 'volatile': False, 'steps': [
                {'op': 'first', 'id': 's2', 'count': None, 'catch': False,
                 'acts': [{'name': 'c1', 'steps': [], 'result': 'v1'},
                          {'name': 'c2', 'steps': [
                              {'op': 'wait', 'n': {'k': 'delay', 'd': 1}, 'id': 's3'},
                              {'op': 'raise', 'kind': 'key', 'tag': 'e1', 'id': 's4'}]}],
                 'body': [{'op': 'wait', 'n': {'k': 'delay', 'd': 2}, 'id': 's5'}]}]}]}]}],
}


#: second canary for the D15 repair: the failure of one activity is already pending (its abort
#: of first()'s scope is queued) when another result is about to be handed out
D15_CANARY_PENDING = {
    'objects': {}, 'start': 0, 'till': None,
    'roots': [{'name': 'r0', 'steps': [
        {'op': 'scope', 'id': 's1', 'n': None, 'catch': False, 'body': [], 'children': [
            {'name': 't1', 'volatile': False, 'steps': [
                {'op': 'first', 'id': 's2', 'count': None, 'catch': False,
                 'acts': [{'name': 'c1', 'result': 'v1', 'steps': [
                              {'op': 'wait', 'n': {'k': 'delay', 'd': 1}, 'id': 's6'}]},
                          {'name': 'c2', 'steps': [
                              {'op': 'wait', 'n': {'k': 'delay', 'd': 1}, 'id': 's3'},
                              {'op': 'raise', 'kind': 'key', 'tag': 'e1', 'id': 's4'}]}],
                 'body': [{'op': 'wait', 'n': {'k': 'delay', 'd': 2}, 'id': 's5'}]}]}]}]}],
}


def two_runs_program(rng):
    """two simulations sharing date-condition objects; the first is aborted by a failure before
    the dates - every wait for them unwound - and let go of just before the second is made"""
    start = rng.choice([0, 0, 3, 0.5])
    shared = [{'k': rng.choice(['ge', 'ge', 'eq']), 't': start + rng.choice([4, 6, 10]),
               'share': 'n%d' % number} for number in range(rng.randint(1, 2))]
    body = [{'op': 'wait', 'n': {'k': 'delay', 'd': rng.choice([1, 2, 3])}, 'id': 'a1'},
            {'op': 'raise', 'kind': 'err', 'tag': 'abort', 'id': 'a2'}]
    for depth, spec in enumerate(shared):
        body = [{'op': 'scope', 'id': 'ab%d' % depth, 'n': dict(spec), 'children': [],
                 'catch': False, 'body': body}]
    first = {'objects': {}, 'roots': [{'name': 'r0', 'steps': body}], 'start': start,
             'till': None}
    roots = []
    for number in range(rng.randint(1, 3)):
        roots.append({'name': 'w%d' % number, 'steps': [
            {'op': 'wait', 'n': dict(rng.choice(shared)), 'id': 'w%d' % number},
            {'op': 'wait', 'n': {'k': 'delay', 'd': 1}, 'id': 'x%d' % number}]})
    second = {'objects': {}, 'roots': roots, 'start': rng.choice([start, start, 0]),
              'till': None}
    return {'two_runs': [first, second]}


def _loop_sized_junk(count):
    """objects of the size (allocator class) of an event loop"""
    import sys as _sys
    from usim._core.loop import Loop
    slots = max(1, (_sys.getsizeof(Loop.__new__(Loop)) - 16) // 8)
    junk_type = type('Junk', (), {'__slots__': tuple('s%d' % n for n in range(slots))})
    return [junk_type() for _ in range(count)]


def build(seed, index):
    if index < 0:
        # fixed program in which known finding D15 strikes (see C03): its consequence - the
        # enclosing scope builds Concurrent(<CancelScope>) and trips an assertion - depends on -O
        return D15_CANARY
    rng = random.Random('%s/%s/c02' % (seed, index))
    if rng.random() < 0.4:
        return fanout_program(rng)
    if rng.random() < 0.12:
        return pipe_program(rng)
    if rng.random() < 0.03:
        return crowd_program(rng)
    if rng.random() < 0.03:
        return two_runs_program(rng)
    if rng.random() < 0.04:
        return integer_clock_program(rng)
    # a few programs start at a date so large that small positive delays are lost in float
    # rounding (now + delay == now): the kernel then queues a *new* step of the same date
    gen = Gen(rng, weights=FANOUT, max_roots=6, max_steps=5,
              start_times=(0, 0, 0, 0, 0, 2.0 ** 53, 1e17, -3, -0.5, -1))
    return gen.program()


def _handler_battery():
    from usim import Concurrent
    answers = []
    for _ in range(3):
        base = type('Base', (Exception,), {})
        derived = type('Derived', (base,), {})
        other = type('Other', (base,), {})
        unrelated = type('Unrelated', (Exception,), {})
        failures = [Concurrent(derived(), other()), Concurrent(derived()),
                    Concurrent(other(), unrelated()), Concurrent(base(), derived(), other())]
        handlers = [Concurrent[base, derived], Concurrent[derived, base, ...],
                    Concurrent[base, other, derived], Concurrent[other, unrelated],
                    Concurrent[base, ...], Concurrent[derived, other]]
        for failure in failures:
            for handler in handlers:
                answers.append(int(isinstance(failure, handler)))
    return ''.join(map(str, answers))


def _levels_battery():
    """what a program sees of a supply does not depend on supplies that somebody declared (in
    another spelling) and dropped before - whether the collector has got to them or not"""
    from usim import Resources, Capacities
    seen = []
    for cls in (Resources, Capacities):
        cls(memory=1, cores=2, disk=3)                  # dropped at once
        junk = [[number] for number in range(300)]      # unrelated allocations
        supply = cls(cores=2, disk=3, memory=1)
        seen.append([name for name, _ in supply.levels])
        del junk
    return seen


def build_single(seed, index):
    """a program for callers that run one simulation per program"""
    program = build(seed, index)
    return program['two_runs'][1] if 'two_runs' in program else program


def normalise(event):
    return json.dumps(event, default=repr, sort_keys=True)


def run_once(program, perturb=0):
    sess = Session()
    if 'two_runs' in program:
        import gc
        first, program = program['two_runs']
        env, outcome = execute(first, sess)
        used = dict(env.shared)
        holder = [env, sess, outcome]
        del env, outcome
        sess = Session()
        junk = []

        def prepare(env):
            env.shared.update(used)
            holder.clear()
            gc.collect()
            # unrelated allocations between the two simulations (not part of the program)
            junk.extend(_loop_sized_junk(perturb))
        env, outcome = execute(program, sess, prepare)
        del junk
    else:
        env, outcome = execute(program, sess)
    lines = [normalise(ev) for ev in sess.events]
    lines.append('outcome:%s' % env.outcome)
    # part of what a program observes: which handlers select a failure - with classes of its
    # own, made afresh in every run (their addresses, hence the order of sets of them, differ
    # from run to run and from configuration to configuration)
    lines.append('handlers:%s' % (_handler_battery(),))
    lines.append('levels:%s' % (_levels_battery(),))
    digest = hashlib.sha1('\n'.join(lines).encode()).hexdigest()
    # The activation trace that is compared is that of the program's own activities. Helper
    # coroutines of the library (the observer of a connective, the trigger of a date) are not
    # observable; whether the observer of an *abandoned* condition gets one more activation
    # depends on when the collector finalises it.
    trace_hash = hashlib.blake2b(digest_size=8)
    for label, when in sess.trace:
        if not label.startswith('internal:'):
            trace_hash.update(('%s@%r;' % (label, when)).encode())
    trace_digest = trace_hash.hexdigest()
    concurrent_steps = 0
    by_time = {}
    for label, when in sess.trace:
        by_time.setdefault(when, set()).add(label)
    concurrent_steps = sum(1 for labels in by_time.values() if len(labels) >= 2)
    return digest, trace_digest, lines, sess, concurrent_steps


def main(argv):
    import gc
    import os
    mode = os.environ.get('VERIF_GC', '')
    if mode == 'off':
        gc.disable()                # finalisation of cyclic garbage is postponed indefinitely
    elif mode == 'aggressive':
        gc.set_threshold(40, 2, 2) # ... or happens very often (1,1,1 crashes CPython 3.12.1)
    seed, first, last = argv[0], int(argv[1]), int(argv[2])
    full = int(argv[4]) if len(argv) > 4 and argv[3] == '--full' else None
    for index in range(first, last):
        if full is not None and index > full:
            break
        program = build(seed, index)
        digest, trace_digest, lines, sess, concurrent_steps = run_once(program)
        # the same program again in the same process, after unrelated allocations
        junk = [bytearray(random.Random(index).randrange(10, 5000)) for _ in range(50)]
        digest2, trace_digest2, lines2, sess2, _ = run_once(program, perturb=3)
        del junk
        record = {
            'index': index, 'digest': digest, 'trace': trace_digest,
            'again': digest2 == digest and trace_digest2 == trace_digest,
            'concurrent_steps': concurrent_steps, 'activations': sess.n,
            'fifo': [v for v in sess.violations if v['mechanism'].startswith(
                ('kernel-', 'c02:', 'c20:resumed-ahead-of-runnable'))][:2],
            'd15': any(v['mechanism'] == 'first-internal-cancelscope-hits-consumer'
                       for v in sess.violations),
        }
        if full is not None and index == full:
            record['lines'] = lines
            record['lines2'] = lines2
            record['trace_list'] = [list(map(str, item)) for item in sess.trace
                                    if not item[0].startswith('internal:')]
        sys.stdout.write(json.dumps(record) + '\n')


if __name__ == '__main__':
    main(sys.argv[1:])
    # skip interpreter finalisation: with the collector running at every allocation
    # CPython 3.12.1 occasionally crashes while tearing down left-over coroutines at exit
    sys.stdout.flush()
    import os
    os._exit(0)
