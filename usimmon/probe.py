"""Kernel probe: observation and fault injection at activation boundaries.

The probe is attached by replacing three class attributes of ``Loop``
(``run``, ``schedule``, ``_run_coroutine``) with call-through wrappers; the
repository is not edited.  All state hangs off a :class:`Session` that is found
through a ``threading.local`` - nothing is module-global, so several
simulations in several threads (C15) do not share monitor state.

Kernel monitors that are always evaluated (they serve C01, C02, C03, C15):

clock       virtual time never decreases
due-time    every activation runs at exactly the date it was scheduled for; no
            unrevoked activation is skipped when the clock moves on or when
            ``run`` returns normally
fifo        inside one time step activations run in scheduling order
ownership   a delivered signal reaches the coroutine it was made for and is not
            revoked at delivery
livelock    the number of activations within one virtual time is bounded
"""
import gc
import os
import sys
import hashlib
import heapq
import threading
import weakref
from collections import Counter, deque

from . import bootstrap  # noqa: F401

from usim._core import loop as _loopmod
from usim._core.handler import __USIM_STATE__

Loop = _loopmod.Loop
Interrupt = _loopmod.Interrupt

_tls = threading.local()

REQUIRED = ('run', 'schedule', '_run_coroutine')
MISSING = [name for name in REQUIRED if not hasattr(Loop, name)]


class HarnessAbort(BaseException):
    """Raised by the probe to stop a simulation that exceeded its budget"""


class LoopState:
    """Monitor state for one ``Loop`` instance"""
    __slots__ = (
        'loop', 'session', 'seq', 'by_key', 'due_heap', 'by_due', 'last_time',
        'last_seq', 'in_step', 'started', 'n', 'roots_started',
    )

    def __init__(self, loop, session):
        self.loop = loop
        self.session = session
        self.seq = 0
        self.by_key = {}
        self.by_due = {}
        self.due_heap = []
        self.last_time = None
        self.last_seq = 0
        self.in_step = 0
        self.started = False
        self.n = 0
        self.roots_started = 0


class Session:
    """One monitored execution (one ``usim.run`` call, possibly with nested runs)"""

    def __init__(self, budget_per_step=100000, budget_total=2000000, name=''):
        self.name = name
        self.events = []
        self.violations = []
        self.stats = Counter()
        self.labels = {}
        self.n = 0                      # global boundary counter (all loops)
        self.plan = {}                  # boundary number -> [callable]
        self.boundary_hooks = []        # f(session, loop, target, signal) before activation
        self.after_hooks = []           # f(session, loop, target, signal) after activation
        self.step_end_hooks = []        # f(session, loop, prev_time)
        self.quiescence_hooks = []      # f(session, loop) inside the still-active simulation
        self.budget_per_step = budget_per_step
        self.budget_total = budget_total
        self.aborted = None
        self.stack = []
        self.armed = False
        self.trace = []                 # (label, time) per activation
        self.times = set()
        self.landing = Counter()        # landing sites of delivered foreign signals
        self.thread_switches = 0
        self.data = {}                  # free for scenario code
        self.main_loop = None

    # -- recording ---------------------------------------------------------
    def violation(self, mechanism, msg, **extra):
        if len(self.violations) < 20:
            rec = {'mechanism': mechanism, 'msg': msg}
            rec.update(extra)
            self.violations.append(rec)

    def label(self, coro, name):
        try:
            ref = weakref.ref(coro, lambda _r, i=id(coro), d=self.labels: d.pop(i, None))
        except TypeError:
            ref = None
        self.labels[id(coro)] = (name, ref)

    def label_of(self, coro):
        try:
            return self.labels[id(coro)][0]
        except KeyError:
            # activities created by the harness carry their label as __qualname__, and
            # Task's wrapper copies it (functools.wraps); everything else is usim-internal
            name = getattr(coro, '__qualname__', None)
            if name is None:
                return 'internal:%s' % type(coro).__name__
            if '.' in name:
                return 'internal:%s' % name
            return name

    def now(self):
        """current virtual time of the innermost monitored loop"""
        return self.stack[-1].loop.time if self.stack else None

    def log(self, *event):
        self.events.append(event)

    def at_boundary(self, n, action):
        self.plan.setdefault(n, []).append(action)

    def signature(self):
        h = hashlib.blake2b(digest_size=8)
        for label, when in self.trace:
            h.update(('%s@%r;' % (label, when)).encode())
        return h.hexdigest()

    # -- running -----------------------------------------------------------
    def run(self, *coros, start=0, till=None, runner=None):
        """Run ``usim.run`` under this session; returns ('ok', None) | ('exc', exc)"""
        import usim
        install()
        prev = getattr(_tls, 'session', None)
        if prev is None:
            # Left-overs of earlier executions (suspended coroutines of a failed or deadlocked
            # simulation become garbage only when their owner lets go of them, i.e. after the
            # forced collection at the end of that run) must be finalised *before* this
            # simulation starts: their finalisers talk to whatever loop is current.
            gc.collect()
        _tls.session = self
        self.armed = True
        if prev is None:
            with _active_lock:
                _active[0] += 1
        try:
            if runner is not None:
                runner()
            elif till is None:
                usim.run(*coros, start=start)
            else:
                usim.run(*coros, start=start, till=till)
        except HarnessAbort as err:
            return ('abort', err)
        except BaseException as err:  # noqa: B902
            return ('exc', err)
        finally:
            self.armed = False
            _tls.session = prev
            # Garbage of this execution (suspended coroutines of a failed or deadlocked
            # simulation, exception/frame cycles) must be finalised *now*, outside any
            # simulation - otherwise the collector finalises it in the middle of a later
            # execution, where its ``finally`` blocks would talk to the wrong loop.
            if prev is None:
                with _active_lock:
                    _active[0] -= 1
                    # (only when no simulation is being monitored in any other thread: what
                    # is subscribed to the singleton may be theirs)
                    if _active[0] == 0:
                        _release_waiters_of_singletons()
                gc.collect()
        return ('ok', None)


#: outermost monitored runs in progress, over all threads
_active = [0]
_active_lock = threading.Lock()


def _release_waiters_of_singletons():
    """`usim.eternity` is one object for the whole process: whoever is still subscribed to it
    when a simulation is over (the observer of `flag | eternity`, an abandoned waiter) stays in
    its list for good - thousands of executions later every forced collection crawls through
    their frames. The simulation is over: close them, as the collector would if it could."""
    try:
        import usim
        waiting = getattr(usim.eternity, '_waiting', None)
        if not waiting:
            return
        for waiter, _ in list(waiting):
            try:
                waiter.close()
            except BaseException:  # noqa: B902 - tearing down outside of any simulation (R3)
                pass
        del waiting[:]
    except Exception:  # noqa: B902
        pass


def current_session():
    sess = getattr(_tls, 'session', None)
    if sess is not None and sess.armed:
        return sess
    return None


def _state_for(loop):
    sess = getattr(_tls, 'session', None)
    if sess is None or not sess.armed:
        return None
    stack = sess.stack
    if stack and stack[-1].loop is loop:
        return stack[-1]
    for st in stack:
        if st.loop is loop:
            return st
    return None


_installed = False
_orig = {}


#: Python-level function calls made within the activation that is running (all threads)
_calls = [0]
#: an activation of these small programs makes 10^1..10^4 calls; more than this many within one
#: activation means that the kernel spins without ever suspending (a logical measure, not a
#: wall-clock one)
SPIN_LIMIT = 3000000
#: frames resumed (or thrown into) in a row, without any function being called in between: when
#: an activity is resumed that is the depth of its chain of awaits. Programs of the scenario
#: language nest a few dozen awaits; a wait that adds a frame per wake-up gets past this
_resumes = [0]
CHAIN_LIMIT = 400


def _report_chain(sess, depth):
    if sess is None or not sess.armed or not sess.stack or sess.stats['await_chain_reported']:
        return
    sess.stats['await_chain_reported'] = 1
    sess.violation(
        'kernel-await-chain-grows',
        'an activity was resumed through a chain of %d awaits at virtual time %r (programs of '
        'the scenario language nest a few dozen): every wake-up adds frames that are never '
        'released, the interpreter stack overflows eventually' % (
            depth, sess.stack[-1].loop.time))


def _install_spin_detector():
    mon = getattr(sys, 'monitoring', None)
    if mon is None:
        return False
    tool = mon.PROFILER_ID
    try:
        mon.use_tool_id(tool, 'usimmon-spin')
    except ValueError:
        return False
    calls = _calls

    resumes = _resumes

    def resumed(code, offset):
        # frames of a chain of awaits: coroutines, async generators and `__await__` generators
        # (not the plain generators / generator expressions that builtins iterate over)
        if code.co_flags & 0x380 or code.co_name == '__await__':
            resumes[0] += 1

    def thrown(code, offset, exception):
        # (closing is not resuming: a crowd of suspended coroutines that is dropped at once is
        # finalised - GeneratorExit thrown into each - without a single call in between)
        if type(exception) is not GeneratorExit and (
                code.co_flags & 0x380 or code.co_name == '__await__'):
            resumes[0] += 1

    def started(code, offset):
        if resumes[0]:
            if resumes[0] > CHAIN_LIMIT:
                _report_chain(getattr(_tls, 'session', None), resumes[0])
            resumes[0] = 0
        calls[0] += 1
        if calls[0] > SPIN_LIMIT:
            calls[0] = 0
            sess = getattr(_tls, 'session', None)
            if sess is not None and sess.armed and sess.stack:
                sess.aborted = 'spin'
                sess.violation(
                    'kernel-spin-within-activation',
                    'more than %d function calls within one activation at virtual time %r: the '
                    'kernel spins without suspending (last code object: %s)' % (
                        SPIN_LIMIT, sess.stack[-1].loop.time, code.co_qualname))
                raise HarnessAbort('spin')
    mon.register_callback(tool, mon.events.PY_START, started)
    mon.register_callback(tool, mon.events.PY_RESUME, resumed)
    mon.register_callback(tool, mon.events.PY_THROW, thrown)
    mon.set_events(tool, mon.events.PY_START | mon.events.PY_RESUME | mon.events.PY_THROW)
    return True


def install():
    global _installed
    if _installed:
        return
    if MISSING:
        raise RuntimeError('probe: Loop lacks %s' % MISSING)
    _installed = True
    if os.environ.get('VERIF_SPIN', '1') != '0':
        _install_spin_detector()
    # everything imported so far is permanent: keep it out of the collections that are forced
    # around every monitored run (makes them ~20x cheaper)
    gc.collect()
    gc.freeze()
    _orig['run'] = Loop.run
    _orig['schedule'] = Loop.schedule
    _orig['_run_coroutine'] = Loop._run_coroutine
    if callable(getattr(Interrupt, 'revoke', None)):
        _orig['revoke'] = Interrupt.revoke
        Interrupt.revoke = _w_revoke
    Loop.run = _w_run
    Loop.schedule = _w_schedule
    Loop._run_coroutine = _w_run_coroutine


#: numbers schedule() and revoke() calls of the whole process in the order in which they happen
_moments = __import__('itertools').count(1)


def _w_revoke(self):
    """Revoking is final: whatever activation carries this signal *now* is dead, whatever the
    signal object is used for later on. Remember the moment (exceptions have a __dict__)."""
    try:
        self._verif_revoked_at = next(_moments)
    except Exception:  # noqa: B902
        pass
    return _orig['revoke'](self)


def _w_run(self):
    sess = getattr(_tls, 'session', None)
    if sess is None or not sess.armed:
        return _orig['run'](self)
    st = LoopState(self, sess)
    st.last_time = self.time
    sess.stack.append(st)
    if sess.main_loop is None:
        sess.main_loop = self
    normal = False
    try:
        _orig['run'](self)
        normal = True
    finally:
        try:
            if normal and sess.armed:
                _at_quiescence(st)
        finally:
            sess.stack.pop()
            if not sess.stack:
                # R3: whatever happens to left-over coroutines from now on is teardown
                sess.armed = False


def _at_quiescence(st):
    sess = st.session
    loop = st.loop
    # step end of the last time step
    with __USIM_STATE__.assign(loop):
        for hook in sess.step_end_hooks:
            hook(sess, loop, loop.time)
        left = 0
        for dq in st.by_key.values():
            for rec in dq:
                signal = rec[3]
                if signal is None or not getattr(signal, '_revoked', False):
                    left += 1
                    sess.violation(
                        'kernel-unrun-activation',
                        'run() returned while an unrevoked activation of %s due at %r '
                        'was still scheduled' % (sess.label_of(rec[2]), rec[1]))
        sess.stats['left_unrun'] += left
        if len(sess.stack) == 1:
            for hook in sess.quiescence_hooks:
                hook(sess, loop)


def _w_schedule(self, target, signal=None, *, delay=None, at=None):
    st = _state_for(self)
    if st is None:
        return _orig['schedule'](self, target, signal, delay=delay, at=at)
    # Between numbering this request and the kernel queueing it no finaliser may run (a
    # finaliser can itself call schedule(), which would then be queued *before* but numbered
    # *after* this one): keep the cyclic collector out of this short section.
    gc_was_on = gc.isenabled()
    gc.disable()
    try:
        st.seq += 1
        if delay is None and at is None:
            due = self.time
        elif delay is not None and at is None:
            due = self.time + delay
        else:
            due = at
        # a positive delay that is lost in float rounding is queued by the kernel as a
        # *new* step of the same time: exempt from the FIFO comparison (seq 0)
        degenerate = (delay is not None or at is not None) and due == self.time
        rec = [0 if degenerate else st.seq, due, target, signal, next(_moments)]
        if degenerate:
            st.session.stats['degenerate_delay'] += 1
        key = (id(target), id(signal))
        dq = st.by_key.get(key)
        if dq is None:
            dq = st.by_key[key] = deque()
        dq.append(rec)
        bucket = st.by_due.get(due)
        if bucket is None:
            st.by_due[due] = bucket = []
            heapq.heappush(st.due_heap, due)
        bucket.append(rec)
        st.session.stats['scheduled'] += 1
        return _orig['schedule'](self, target, signal, delay=delay, at=at)
    finally:
        if gc_was_on:
            gc.enable()


def _purge(st, upto):
    """the clock moved past ``upto``: everything due then must have run or be revoked"""
    sess = st.session
    heap = st.due_heap
    while heap and heap[0] <= upto:
        due = heapq.heappop(heap)
        for rec in st.by_due.pop(due, ()):
            if rec[2] is None:
                continue  # ran
            signal = rec[3]
            key = (id(rec[2]), id(signal))
            dq = st.by_key.get(key)
            if dq is not None:
                try:
                    dq.remove(rec)
                except ValueError:
                    pass
                if not dq:
                    del st.by_key[key]
            if signal is None or not getattr(signal, '_revoked', False):
                sess.violation(
                    'kernel-skipped-activation',
                    'clock moved past %r but an unrevoked activation of %s due then never ran'
                    % (due, sess.label_of(rec[2])))


def _check_owner(sess, target, signal):
    """a delivered signal must reach the coroutine it was created for"""
    owner = None
    kind = type(signal).__name__
    try:
        if hasattr(signal, 'subject'):
            subject = signal.subject
            if kind == 'CancelTask' or hasattr(subject, '__runner__'):
                owner = subject.__runner__
            elif hasattr(subject, '_activity'):
                owner = subject._activity
        elif isinstance(signal, Interrupt):
            token = signal.token
            if len(token) == 2:
                owner = token[1]
    except Exception:  # noqa: B902
        owner = None
    if owner is None:
        sess.stats['owner_unknown'] += 1
        return
    sess.stats['owner_checked'] += 1
    if owner is not target:
        sess.violation(
            'kernel-foreign-signal',
            '%s made for %s delivered to %s' % (
                kind, sess.label_of(owner), sess.label_of(target)))


def _w_run_coroutine(self, target, signal=None):
    st = _state_for(self)
    if st is None:
        return _orig['_run_coroutine'](self, target, signal)
    sess = st.session
    now = self.time
    # ---- clock ----
    if st.started and now != st.last_time:
        prev = st.last_time
        if now < prev:
            sess.violation('kernel-clock-backwards',
                           'clock went from %r back to %r' % (prev, now))
        for hook in sess.step_end_hooks:
            hook(sess, self, prev)
        _purge(st, prev)
        st.last_seq = 0
        st.in_step = 0
    elif not st.started:
        st.started = True
    st.last_time = now
    st.in_step += 1
    st.n += 1
    sess.n += 1
    sess.times.add(now)
    # ---- due-time / fifo ----
    dq = st.by_key.get((id(target), id(signal)))
    if dq:
        rec = dq.popleft()
        if not dq:
            del st.by_key[(id(target), id(signal))]
        seq, due = rec[0], rec[1]
        if signal is not None and rec[4] < getattr(signal, '_verif_revoked_at', 0):
            # (the flag of the signal may have been cleared again since: the activation that
            # was queued before the revocation stays dead)
            sess.violation('kernel-revoked-delivered',
                           'an activation of %s that was revoked after it had been queued '
                           'has been delivered after all (%s)' % (
                               sess.label_of(target), type(signal).__name__))
        rec[0] = None
        rec[2] = None
        # drop the signal: once thrown, its traceback references the target's frames, and
        # keeping those alive would delay the finalisation of suspended async generators
        rec[3] = None
        if due != now:
            sess.violation(
                'kernel-wrong-date',
                'activation of %s scheduled for %r ran at %r' % (
                    sess.label_of(target), due, now))
        if seq and seq < st.last_seq:
            if due == now:
                sess.violation(
                    'kernel-fifo',
                    'activation #%d of %s overtook #%d within time %r' % (
                        st.last_seq, '?', seq, now))
        st.last_seq = max(st.last_seq, seq)
        sess.stats['due_checked'] += 1
    elif signal is None:
        st.roots_started += 1
    else:
        sess.stats['untracked_activation'] += 1
    # ---- ownership ----
    if signal is not None:
        if isinstance(signal, Interrupt) and getattr(signal, '_revoked', False):
            sess.violation('kernel-revoked-delivered',
                           'revoked %s delivered to %s' % (
                               type(signal).__name__, sess.label_of(target)))
        _check_owner(sess, target, signal)
    _calls[0] = 0
    # ---- await chain: a wait must not get deeper every time it is woken ----
    if _resumes[0] > CHAIN_LIMIT:
        _report_chain(sess, _resumes[0])
    _resumes[0] = 0
    # ---- livelock / budget ----
    if st.in_step > sess.budget_per_step:
        sess.aborted = 'livelock'
        sess.violation(
            'kernel-livelock',
            'more than %d activations at virtual time %r' % (sess.budget_per_step, now))
        raise HarnessAbort('livelock')
    if sess.n > sess.budget_total:
        sess.aborted = 'budget'
        raise HarnessAbort('budget')
    label = sess.label_of(target)
    sess.trace.append((label, now))
    # ---- thread switches (C15) ----
    tid = threading.get_ident()
    last = _last_thread[0]
    if last != tid:
        _last_thread[0] = tid
        if last is not None:
            sess.thread_switches += 1
    # ---- injections and hooks ----
    actions = sess.plan.pop(sess.n, None)
    if actions:
        if self is sess.main_loop:
            for action in actions:
                action(sess)
        else:
            # Injected API calls act on tasks of the monitored (outermost) simulation: at a
            # boundary of a nested simulation they would schedule those tasks into the nested
            # loop - something no program does. They wait for the next boundary of their own.
            sess.plan.setdefault(sess.n + 1, [])[:0] = actions
    for hook in sess.boundary_hooks:
        hook(sess, self, target, signal)
    try:
        return _orig['_run_coroutine'](self, target, signal)
    finally:
        if sess.armed:
            for hook in sess.after_hooks:
                hook(sess, self, target, signal)


# deliberately process-global and racy: only used to *count* hand-overs between threads
_last_thread = [None]
