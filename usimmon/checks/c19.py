"""C19 - SimPy resources keep capacity, conserve content, serve requests in policy order"""
import random

from .. import bootstrap  # noqa: F401
from ..models import simpyres
from ..probe import Session

import usim.py as usimpy
from usim.py.exceptions import Interrupt as UsimInterrupt
from usim.py.resources.container import Container
from usim.py.resources.store import Store, PriorityStore, FilterStore, PriorityItem
from usim.py.resources.resource import Resource, PriorityResource, PreemptiveResource, Preempted

PROPERTY = 'C19'
LEVEL = 'exploration'
RULE = (
    'random histories of 5-60 operations (put / get with amounts, items, priorities, filters '
    'incl. filters matching nothing; request / release / cancel / context-manager exit / '
    'interrupting the requesting process inside its `with request:` block, also in the time step '
    'in which it is granted) against '
    'Container, Store, PriorityStore, FilterStore (items equal but distinct), Resource, PriorityResource, PreemptiveResource with worker processes that issue several requests each (self-preemption included) and '
    'PreemptiveResource with capacities {1, 2, 3, inf}; every request is issued by its own '
    'process (so preemption interrupts a distinct process); operations happen one per time step '
    'or in bursts inside one time step. At every time-step end the real state (level / items / '
    'users / membership and order of both queues / which requests have fired, with which value) '
    'is compared with a sequential reference model fed with the same history; preempted '
    'processes must receive Interrupt(Preempted(by, usage_since, resource)); levels stay within '
    '[0, capacity]; users never exceed capacity. non-trivial = history in which a request had '
    'to wait; distinct = (type, history digest)'
)
RULE = RULE + (' Further: stateful filters, exception instances and None as items, several slots held by one process through nested with-blocks, blocks left by GeneratorExit.')

LEVEL_TEXT = (
    'Exploration by runtime monitoring against executable models: after every time step of a '
    'generated operation history the state of the real resource is compared with a sequential '
    'reference model of that resource type (head-of-queue service in policy order, evaluation '
    'on new request and on completed put/get/release, not on cancel).')
TECHNIQUE = 'runtime monitoring: state comparison with sequential reference models at every time-step end of generated operation histories'
ASSUMPTIONS = [
    'service is head-of-queue in policy order except FilterStore (statement)',
    'queues are re-evaluated on a new request and on a completed put/get/release, not on cancel',
]
REQUIRED_STATS = ['histories', 'snapshots_compared', 'operations', 'waited_requests']

TYPES = ['container', 'store', 'prioritystore', 'filterstore', 'resource', 'priorityresource',
         'preemptive', 'workers']


def n_cases(tier):
    return 3000 if tier == 'quick' else 100000


def make_case(seed, index, tier):
    rng = random.Random('%s/%s/c19' % (seed, index))
    kind = TYPES[index % len(TYPES)]
    if kind == 'workers':
        return make_workers_case(seed, index, tier, rng)
    capacity = rng.choice([1, 2, 3, 'inf']) if kind not in ('resource', 'priorityresource',
                                                            'preemptive') \
        else rng.choice([1, 1, 2, 3])
    ops = []
    requests = []       # indices of request-like ops that may still be cancelled / released
    when = 0
    item_no = 0
    for number in range(rng.randint(5, 60 if tier == 'thorough' else 30)):
        if rng.random() < 0.7:
            when += 1
        roll = rng.random()
        op = {'t': when}
        if kind == 'container':
            if roll < 0.45:
                op.update(op='put', amount=rng.choice([1, 1, 2, 3]))
            elif roll < 0.86:
                op.update(op='get', amount=rng.choice([1, 1, 2, 3]))
            elif requests:
                op.update(op=rng.choice(['cancel', 'interrupt']), target=rng.choice(requests))
            else:
                op.update(op='put', amount=1)
        elif kind in ('store', 'prioritystore', 'filterstore'):
            if roll < 0.45:
                item_no += 1
                item = item_no if kind != 'prioritystore' else [rng.randint(0, 3), item_no]
                if kind == 'store' and rng.random() < 0.15:
                    item = 'NONE'       # the item None (a valid item), written as a marker
                elif kind == 'store' and rng.random() < 0.12:
                    item = 'ERR%d' % item_no    # an exception instance kept as an item (data)
                elif kind != 'prioritystore' and item_no > 1 and rng.random() < 0.25:
                    # a twin: equal to (==) an earlier item, yet a different object that
                    # filters can tell apart - the store must hand out *the* matching item
                    item = float(rng.randint(1, item_no - 1))
                op.update(op='put', item=item)
            elif roll < 0.86:
                op.update(op='get')
                if kind == 'filterstore':
                    op['filter'] = rng.choice(['any', 'any', 'even', 'odd', 'big', 'none',
                                               'isint', 'isfloat', 'mod3', 'text', 'maybe',
                                               'gate', 'gate', 'gate-odd'])
            elif requests:
                op.update(op=rng.choice(['cancel', 'interrupt']), target=rng.choice(requests))
            else:
                op.update(op='get')
                if kind == 'filterstore':
                    op['filter'] = 'any'
        else:
            if roll < 0.5 or not requests:
                op.update(op='request')
                if kind != 'resource':
                    op['priority'] = rng.choice([0, 1, 1, 2, 3])
                if kind == 'preemptive':
                    op['preempt'] = rng.random() < 0.7
            elif roll < 0.8:
                op.update(op='release', target=rng.choice(requests))
            elif roll < 0.87:
                op.update(op='cancel', target=rng.choice(requests))
            elif roll < 0.93 or kind == 'preemptive':
                op.update(op='exit', target=rng.choice(requests))
            else:
                # the requesting process is interrupted and leaves its `with request:` block
                # by that exception - possibly in the very time step in which it is granted
                op.update(op='interrupt', target=rng.choice(requests))
        if op['op'] == 'interrupt' and ops and ops[-1]['op'] == 'release' and rng.random() < 0.6:
            # straight after a release, in the same time step: the interrupted process sees its
            # request granted but not yet processed (it acts only after the release's cascade)
            op['t'] = ops[-1]['t']
            when = op['t']
            ops[-1]['solo'] = False
            solo = True
        elif op['op'] in ('release', 'cancel', 'exit', 'interrupt'):
            # the effect of these on a request that is granted *later in the same time step*
            # depends on the order inside the step: they get a time step of their own
            if ops and ops[-1]['t'] == op['t']:
                when += 1
                op['t'] = when
            solo = True
        else:
            if ops and ops[-1].get('solo') and ops[-1]['t'] == op['t']:
                when += 1
                op['t'] = when
            solo = False
        op['solo'] = solo
        if op['op'] in ('put', 'get', 'request'):
            requests.append(number)
        elif op['op'] in ('cancel', 'exit', 'interrupt'):
            # cancelling twice is a usage error (ValueError in SimPy as well)
            requests.remove(op['target'])
        ops.append(op)
    init = rng.randint(0, 2) if kind == 'container' else 0
    if capacity != 'inf':
        init = min(init, capacity)
    return {'seed': seed, 'index': index, 'tier': tier, 'kind': kind, 'capacity': capacity,
            'init': init, 'ops': ops}


FILTERS = {
    'any': lambda item: True, 'even': lambda item: item % 2 == 0,
    'odd': lambda item: item % 2 == 1, 'big': lambda item: item > 6, 'none': lambda item: False,
    'isint': lambda item: type(item) is int, 'isfloat': lambda item: type(item) is float,
    # filters whose result is truthy / falsy, but not a bool
    'mod3': lambda item: item % 3 * 2, 'text': lambda item: 'big' if item > 3 else '',
    'maybe': lambda item: [item] if item % 2 else None,
}


def filter_for(name, clock):
    """the filter `name`; filters of the gate family are *stateful*: their verdict on one and the
    same item changes with (virtual) time, like `lambda machine: machine.ready` does for a
    machine that is serviced meanwhile - the store has to ask again whenever it re-evaluates"""
    if name == 'gate':
        return lambda item: int(clock() // 3) % 2 == 1
    if name == 'gate-odd':
        return lambda item: int(clock() // 2) % 2 == 0 and item % 2 == 1
    return FILTERS[name]


def real_item(marker):
    if marker == 'NONE':
        return None
    if isinstance(marker, str) and marker.startswith('ERR'):
        return LookupError(marker)
    return marker


def ident(item):
    """items are compared by identity, not equality: 2 and 2.0 are different items"""
    if isinstance(item, LookupError) and item.args and str(item.args[0]).startswith('ERR'):
        return repr(item.args[0])       # (an exception instance that is an item: its marker)
    return item if item is None or isinstance(item, (tuple, list)) else repr(item)


def make_model(case):
    capacity = float('inf') if case['capacity'] == 'inf' else case['capacity']
    kind = case['kind']
    if kind == 'container':
        return simpyres.ContainerModel(capacity, case['init'])
    if kind == 'store':
        return simpyres.StoreModel(capacity)
    if kind == 'prioritystore':
        return simpyres.PriorityStoreModel(capacity)
    if kind == 'filterstore':
        return simpyres.FilterStoreModel(capacity)
    if kind == 'resource':
        return simpyres.ResourceModel(capacity)
    if kind == 'priorityresource':
        return simpyres.PriorityResourceModel(capacity)
    return simpyres.PreemptiveResourceModel(capacity)


def run_model(case):
    """snapshots of the reference model after each time step that contains operations"""
    model = make_model(case)
    kind = case['kind']
    snapshots = {}
    by_time = {}
    for number, op in enumerate(case['ops']):
        by_time.setdefault(op['t'], []).append((number, op))
    side = {}
    for when in sorted(by_time):
        model.now = when
        for number, op in by_time[when]:
            what = op['op']
            if what == 'put':
                request = {'op': number}
                if kind == 'container':
                    request['amount'] = op['amount']
                else:
                    item = op['item']
                    request['item'] = tuple(item) if isinstance(item, list) else item
                side[number] = 'put'
                model.put(request)
            elif what == 'get':
                request = {'op': number}
                if kind == 'container':
                    request['amount'] = op['amount']
                if kind == 'filterstore':
                    request['accept'] = filter_for(op['filter'], lambda: model.now)
                side[number] = 'get'
                model.get(request)
            elif what == 'request':
                side[number] = 'put'
                model.put({'op': number, 'priority': op.get('priority', 0),
                           'preempt': op.get('preempt', True)})
            elif what == 'release':
                model.get({'op': number, 'request': op['target']})
            elif what == 'cancel':
                model.cancel(op['target'])
            elif what in ('exit', 'interrupt'):
                # context manager exit: release if granted, then cancel
                if op['target'] in model.granted and kind in (
                        'resource', 'priorityresource', 'preemptive'):
                    model.get({'op': number, 'request': op['target']})
                    model.granted.pop(number, None)     # the implicit release is not observed
                model.cancel(op['target'])
        snapshots[when] = model.snapshot()
    return snapshots, model


# ---- processes that issue several requests (PreemptiveResource) --------------------------------
def make_workers_case(seed, index, tier, rng):
    """every operation in a time step of its own; a request is issued by a new or by an existing
    worker process - also by one that holds a slot itself (it may preempt itself)"""
    capacity = rng.choice([1, 1, 2, 3])
    ops = []
    pids = []
    requests = []
    for number in range(rng.randint(4, 40 if tier == 'thorough' else 22)):
        op = {'t': number + 1}
        roll = rng.random()
        if roll < 0.68 or not requests:
            op.update(op='request', priority=rng.choice([0, 1, 1, 2, 3, 4]),
                      preempt=rng.random() < 0.75)
            if pids and rng.random() < 0.45:
                op['pid'] = rng.choice(pids)
            else:
                op['pid'] = number
                pids.append(number)
            requests.append(number)
        elif roll < 0.9:
            op.update(op='release', target=rng.choice(requests))
        else:
            op.update(op='cancel', target=rng.choice(requests))
            requests.remove(op['target'])
        ops.append(op)
    return {'seed': seed, 'index': index, 'tier': tier, 'kind': 'workers', 'capacity': capacity,
            'init': 0, 'ops': ops}


def run_workers_model(case):
    model = simpyres.PreemptiveResourceModel(case['capacity'])
    dead = set()
    pid_of = {}
    issued = set()
    snapshots = {}
    observable = []
    seen = 0
    for number, op in enumerate(case['ops']):
        model.now = op['t']
        if op['op'] == 'request':
            if op['pid'] not in dead:
                pid_of[number] = op['pid']
                issued.add(number)
                model.put({'op': number, 'priority': op['priority'], 'preempt': op['preempt']})
        elif op['target'] in issued:
            if op['op'] == 'release':
                model.get({'op': number, 'request': op['target']})
            else:
                model.cancel(op['target'])
        for victim, by, since in model.preemptions[seen:]:
            # (a process that has ended already loses the slot but cannot be interrupted again)
            if pid_of[victim] not in dead:
                observable.append((pid_of[victim], pid_of[by], since))
            dead.add(pid_of[victim])
        seen = len(model.preemptions)
        snapshots[op['t']] = model.snapshot()
    return snapshots, sorted(observable), model


def run_workers_case(case):
    from usim.py.resources.resource import PriorityRequest
    expected, want_preemptions, model = run_workers_model(case)
    sess = Session(budget_per_step=20000, budget_total=400000)
    holder = {'requests': {}, 'workers': {}, 'cmds': {}, 'preempted': [], 'snapshots': {},
              'bounds': []}

    def runner():
        env = usimpy.Environment()
        res = PreemptiveResource(env, capacity=case['capacity'])
        holder['res'] = res
        workers = holder['workers']

        def worker(pid):
            try:
                while True:
                    command = holder['cmds'][pid] = env.event()
                    number, op = yield command
                    holder['requests'][number] = PriorityRequest(res, op['priority'],
                                                                 op['preempt'])
            except UsimInterrupt as interrupt:
                cause = interrupt.cause
                if isinstance(cause, Preempted):
                    by = next((p for p, proc in workers.items() if proc is cause.by), None)
                    holder['preempted'].append((pid, by, cause.usage_since,
                                                cause.resource is res))
                else:
                    holder['preempted'].append((pid, 'not-preempted', repr(cause), True))

        def driver():
            last = 0
            for number, op in enumerate(case['ops']):
                yield env.timeout(op['t'] - last)
                last = op['t']
                if op['op'] == 'request':
                    pid = op['pid']
                    if pid not in workers:
                        workers[pid] = env.process(worker(pid))
                        yield env.timeout(0)
                    if workers[pid].is_alive:
                        holder['cmds'][pid].succeed((number, op))
                        yield env.timeout(0)
                elif op['target'] in holder['requests']:
                    if op['op'] == 'release':
                        holder['requests'][number] = res.release(
                            holder['requests'][op['target']])
                    else:
                        holder['requests'][op['target']].cancel()
            yield env.timeout(1)
        env.process(driver())
        env.run(until=case['ops'][-1]['t'] + 2)

    def snapshot(session, loop, prev_time):
        res = holder.get('res')
        if res is None:
            return
        requests = holder['requests']
        index_of = {id(req): number for number, req in requests.items()}
        holder['bounds'].append(len(res.users))
        holder['snapshots'][prev_time] = {
            'granted': {number: None for number, request in requests.items()
                        if request.triggered},
            'put_queue': [index_of.get(id(req)) for req in res.put_queue],
            'get_queue': [index_of.get(id(req)) for req in res.get_queue],
            'users': sorted(index_of.get(id(req)) for req in res.users)}

    sess.step_end_hooks.append(snapshot)
    outcome = sess.run(runner=runner)
    violations = []

    def vio(mechanism, msg):
        violations.append({'mechanism': 'c19:' + mechanism, 'msg': msg, 'case': dict(case)})
    for v in sess.violations:
        if v['mechanism'].startswith('kernel-'):
            vio(v['mechanism'], v['msg'])
    if outcome[0] != 'ok':
        vio('run-failed', 'history with multi-request processes: run ended with %r' % (
            outcome[1],))
    stats = {'histories': 1, 'snapshots_compared': 0, 'operations': len(case['ops']),
             'interrupted_requesters': 0, 'waited_requests': 0,
             'preemptions': len(want_preemptions), 'kinds': {'workers': 1},
             'self_preemptions': sum(1 for victim, by, _ in want_preemptions if victim == by)}
    for when in sorted(expected):
        want = expected[when]
        got = holder['snapshots'].get(when)
        if got is None:
            if outcome[0] == 'ok':
                vio('no-snapshot', 'no state observed at the end of time step %r' % when)
            continue
        stats['snapshots_compared'] += 1
        if want['put_queue']:
            stats['waited_requests'] = 1
        for key in ('granted', 'put_queue', 'users'):
            mine, theirs = got[key], want[key]
            if key == 'granted':
                mine, theirs = sorted(mine), sorted(theirs)
            if mine != theirs:
                vio('state-differs:' + key,
                    'PreemptiveResource(capacity %s) with multi-request processes at the end of '
                    'time step %r: %s is %r, reference model %r' % (
                        case['capacity'], when, key, mine, theirs))
                break
        else:
            continue
        break
    if any(count > case['capacity'] for count in holder['bounds']):
        vio('more-users-than-capacity', 'users %s, capacity %s' % (
            holder['bounds'], case['capacity']))
    if outcome[0] == 'ok':
        got = sorted((pid, by, since) for pid, by, since, is_res in holder['preempted'])
        if got != want_preemptions:
            vio('preemption', 'processes preempted (victim process, by process, usage_since): '
                              '%s, reference model %s' % (got, want_preemptions))
        if not all(entry[3] for entry in holder['preempted']):
            vio('preemption', 'Preempted.resource is not the resource')
    digest = 'workers/%d' % (hash(repr(case['ops'])) & 0xffffffff)
    sample = None
    if case['index'] < 16:
        sample = {'kind': 'workers', 'capacity': case['capacity'], 'ops': case['ops'][:12],
                  'preemptions': want_preemptions}
    return {'evals': 1, 'sigs': [digest] if stats['waited_requests'] or want_preemptions else [],
            'stats': stats, 'violations': violations, 'sample': sample}


def several_slots_one_process(case):
    """one process holds several slots of a PreemptiveResource through nested `with` blocks; it
    loses one of them to an urgent request and leaves all its blocks by that Interrupt: every
    slot it held is free again - somebody who needs all of them gets them"""
    import contextlib
    rng = random.Random('%s/%s/c19-nested' % (case['seed'], case['index']))
    capacity = rng.choice([2, 2, 3, 4])
    held = rng.randint(2, capacity)
    together = rng.random() < 0.5        # requested in one time step / one after the other
    catches = rng.choice(['outside', 'outside', 'inside-reraise'])
    log = []
    sess = Session(budget_per_step=20000, budget_total=400000)

    def runner():
        env = usimpy.Environment()
        res = PreemptiveResource(env, capacity=capacity)

        def holder():
            try:
                with contextlib.ExitStack() as stack:
                    requests = []
                    for number in range(held):
                        requests.append(stack.enter_context(res.request(priority=5)))
                        if not together:
                            yield requests[-1]
                            yield env.timeout(0.25)
                    if together:
                        yield env.all_of(requests)
                    log.append(('holder holds', res.count, env.now))
                    try:
                        yield env.timeout(100)
                    except UsimInterrupt:
                        if catches != 'inside-reraise':
                            raise
                        log.append(('holder notices', env.now))
                        raise
            except UsimInterrupt as interrupt:
                log.append(('holder preempted', isinstance(interrupt.cause, Preempted), env.now))

        def urgent():
            yield env.timeout(5)
            with res.request(priority=0) as request:
                yield request
                log.append(('urgent got a slot', env.now))
                yield env.timeout(1)
            log.append(('urgent done', res.count, env.now))

        def late():
            yield env.timeout(10)
            requests = [res.request(priority=9) for _ in range(capacity)]
            yield env.all_of(requests)
            log.append(('late got all slots', res.count, env.now))
            for request in requests:
                res.release(request)

        for process in (holder, urgent, late):
            env.process(process())
        env.run(until=50)
        log.append(('in use at the end', res.count))
    outcome = sess.run(runner=runner)
    at = 0 if together else 0.25 * held
    want = [('holder holds', held, at)]
    if held == capacity:
        want += ([('holder notices', 5)] if catches == 'inside-reraise' else []) + [
            ('holder preempted', True, 5), ('urgent got a slot', 5), ('urgent done', 0, 6)]
    else:
        want += [('urgent got a slot', 5), ('urgent done', held, 6)]
    violations = [dict(v) for v in sess.violations if v['mechanism'].startswith('kernel-')]
    what = 'a process holding %d of %d slots through nested with-blocks (%s)' % (
        held, capacity, 'requested together' if together else 'one after the other')
    if outcome[0] != 'ok':
        violations.append({'mechanism': 'c19:run-failed',
                           'msg': '%s: ended with %r' % (what, outcome[1])})
    elif held == capacity and log != want + [('late got all slots', capacity, 10),
                                             ('in use at the end', 0)]:
        violations.append({'mechanism': 'c19:state-differs:granted',
                           'msg': '%s and preempted by an urgent request: log %s, expected %s '
                                  'followed by a late user getting all slots at 10 and nothing '
                                  'in use at the end' % (what, log, want)})
    elif held < capacity and log[:3] != want:
        violations.append({'mechanism': 'c19:state-differs:granted',
                           'msg': '%s: log %s, expected to begin with %s' % (what, log, want)})
    for vio in violations:
        vio['case'] = dict(case)
    return {'evals': 1, 'sigs': [sess.signature()], 'violations': violations, 'sample': None,
            'stats': {'several_slots_one_process': 1, 'activations': sess.n}}


def run_case(case):
    kind = case['kind']
    if case['index'] % 30 == 17:
        return several_slots_one_process(case)
    if kind == 'workers':
        return run_workers_case(case)
    capacity = float('inf') if case['capacity'] == 'inf' else case['capacity']
    expected, model = run_model(case)
    sess = Session(budget_per_step=20000, budget_total=400000)
    holder = {'requests': {}, 'procs': {}, 'preempted': [], 'snapshots': {}, 'bounds': [],
              'interrupted': []}

    def build(env):
        if kind == 'container':
            return Container(env, capacity=capacity, init=case['init'])
        if kind == 'store':
            return Store(env, capacity=capacity)
        if kind == 'prioritystore':
            return PriorityStore(env, capacity=capacity)
        if kind == 'filterstore':
            return FilterStore(env, capacity=capacity)
        if kind == 'resource':
            return Resource(env, capacity=capacity)
        if kind == 'priorityresource':
            return PriorityResource(env, capacity=capacity)
        return PreemptiveResource(env, capacity=capacity)

    def runner():
        env = usimpy.Environment()
        res = build(env)
        holder['res'] = res
        holder['env'] = env
        requests = holder['requests']
        procs = holder['procs']
        forever = env.event()

        def requester(number, op):
            what = op['op']
            if what == 'put':
                if kind == 'container':
                    request = res.put(op['amount'])
                elif kind == 'prioritystore':
                    request = res.put(PriorityItem(op['item'][0], op['item'][1]))
                else:
                    request = res.put(real_item(op['item']))
            elif what == 'get':
                if kind == 'container':
                    request = res.get(op['amount'])
                elif kind == 'filterstore':
                    request = res.get(filter_for(op['filter'], lambda: env.now))
                else:
                    request = res.get()
            else:
                if kind == 'resource':
                    request = res.request()
                elif kind == 'priorityresource':
                    request = res.request(priority=op['priority'])
                else:
                    request = PreemptiveRequest(res, op['priority'], op['preempt'])
            requests[number] = request
            try:
                if kind == 'preemptive':
                    yield request
                    yield forever
                else:
                    with request:
                        yield request
                        yield forever
            except UsimInterrupt as interrupt:
                cause = interrupt.cause
                if isinstance(cause, Preempted):
                    by = next((n for n, proc in procs.items() if proc is cause.by), None)
                    holder['preempted'].append((number, by, cause.usage_since,
                                                cause.resource is res, env.now))
                else:
                    holder['interrupted'].append((number, env.now))

        def driver():
            last = 0
            for number, op in enumerate(case['ops']):
                if op['t'] > last:
                    yield env.timeout(op['t'] - last)
                    last = op['t']
                what = op['op']
                if what in ('put', 'get', 'request'):
                    procs[number] = env.process(requester(number, op))
                    # let the requester issue its request before the next operation
                    yield env.timeout(0)
                elif what == 'release':
                    requests[number] = res.release(requests[op['target']])
                elif what == 'cancel':
                    requests[op['target']].cancel()
                elif what == 'exit':
                    if number % 2:
                        # the generator holding the `with request:` block is abandoned (closed)
                        abandoned = GeneratorExit()
                        requests[op['target']].__exit__(GeneratorExit, abandoned, None)
                    else:
                        requests[op['target']].__exit__(None, None, None)
                elif what == 'interrupt':
                    procs[op['target']].interrupt('stop')
            yield env.timeout(1)
        env.process(driver())
        env.run(until=case['ops'][-1]['t'] + 2)

    from usim.py.resources.resource import PriorityRequest as PreemptiveRequest

    def snapshot(session, loop, prev_time):
        res = holder.get('res')
        if res is None:
            return
        requests = holder['requests']
        index_of = {id(req): number for number, req in requests.items()}
        snap = {'granted': {}, 'put_queue': [], 'get_queue': []}
        for number, request in requests.items():
            if request.triggered:
                value = request.value
                if isinstance(value, PriorityItem):
                    value = (value.priority, value.item)
                if value is None and kind == 'store' and case['ops'][number]['op'] == 'get':
                    value = 'NONE'      # the get received the item None
                snap['granted'][number] = ident(value)
        snap['put_queue'] = [index_of.get(id(req)) for req in res.put_queue]
        snap['get_queue'] = [index_of.get(id(req)) for req in res.get_queue]
        if kind == 'container':
            snap['level'] = res.level
            holder['bounds'].append(res.level)
        elif kind in ('store', 'prioritystore', 'filterstore'):
            items = res.items
            snap['items'] = [(item.priority, item.item) if isinstance(item, PriorityItem)
                             else ident('NONE' if item is None and kind == 'store' else item)
                             for item in items]
        else:
            snap['users'] = sorted(index_of.get(id(req)) for req in res.users)
            holder['bounds'].append(len(res.users))
        holder['snapshots'][prev_time] = snap

    sess.step_end_hooks.append(snapshot)
    outcome = sess.run(runner=runner)
    violations = []

    def vio(mechanism, msg):
        violations.append({'mechanism': 'c19:' + mechanism, 'msg': msg,
                           'case': {k: v for k, v in case.items()}})
    for v in sess.violations:
        if v['mechanism'].startswith('kernel-'):
            vio(v['mechanism'], v['msg'])
    if outcome[0] != 'ok':
        vio('run-failed', '%s history: run ended with %r' % (kind, outcome[1]))
    stats = {'histories': 1, 'snapshots_compared': 0, 'operations': len(case['ops']),
             'interrupted_requesters': len(holder['interrupted']),
             'waited_requests': 0, 'preemptions': len(model.preemptions),
             'kinds': {kind: 1}}
    waited = False
    for when in sorted(expected):
        want = expected[when]
        got = holder['snapshots'].get(when)
        if got is None:
            if outcome[0] == 'ok':
                vio('no-snapshot', 'no state observed at the end of time step %r' % when)
            continue
        stats['snapshots_compared'] += 1
        if want['put_queue'] or want['get_queue']:
            waited = True
        for key in want:
            mine = got.get(key)
            theirs = want[key]
            if key == 'granted' and kind in ('store', 'filterstore'):
                theirs = {op: ident(v) for op, v in theirs.items()}
            elif key == 'items' and kind in ('store', 'filterstore'):
                theirs = [ident(v) for v in theirs]
            if key == 'granted':
                if kind == 'prioritystore':
                    theirs = {op: (tuple(v) if isinstance(v, (list, tuple)) else v)
                              for op, v in theirs.items()}
                if set(mine) != set(theirs):
                    late = sorted(set(theirs) - set(mine))
                    early = sorted(set(mine) - set(theirs))
                    vio('grantable-request-pending' if late else 'granted-against-policy',
                        '%s(capacity %s) at the end of time step %r: requests %s should have been '
                        'granted and are pending; %s were granted although the model keeps them '
                        'waiting (model queues put=%s get=%s)' % (
                            kind, case['capacity'], when, late, early, want['put_queue'],
                            want['get_queue']))
                    break
                wrong = [op for op in theirs if theirs[op] != mine[op]
                         and theirs[op] is not None]
                if wrong:
                    vio('wrong-item', '%s at %r: request %d received %r, policy says %r' % (
                        kind, when, wrong[0], mine[wrong[0]], theirs[wrong[0]]))
                    break
            elif mine != (list(map(tuple, theirs)) if key == 'items' and kind == 'prioritystore'
                          else theirs):
                vio('state-differs:' + key,
                    '%s(capacity %s) at the end of time step %r: %s is %r, reference model %r' % (
                        kind, case['capacity'], when, key, mine, theirs))
                break
    if waited:
        stats['waited_requests'] = 1
    if kind == 'container' and any(level < 0 or level > capacity for level in holder['bounds']):
        vio('level-out-of-bounds', 'container level left [0, %s]: %s' % (
            capacity, holder['bounds']))
    if kind in ('resource', 'priorityresource', 'preemptive') and any(
            count > capacity for count in holder['bounds']):
        vio('more-users-than-capacity', 'users %s, capacity %s' % (holder['bounds'], capacity))
    if kind == 'preemptive' and outcome[0] == 'ok':
        want = sorted((victim, by, since) for victim, by, since in model.preemptions)
        got = sorted((victim, by, since) for victim, by, since, is_res, when
                     in holder['preempted'])
        if want != got:
            vio('preemption', 'preempted (victim, by, usage_since): %s, reference model %s' % (
                got, want))
        if not all(entry[3] for entry in holder['preempted']):
            vio('preemption', 'Preempted.resource is not the resource')
    digest = '%s/%d' % (kind, hash(repr(case['ops'])) & 0xffffffff)
    sample = None
    if case['index'] < 14:
        sample = {'kind': kind, 'capacity': case['capacity'], 'ops': case['ops'][:12],
                  'final_model_state': {k: (v if not isinstance(v, dict) else
                                            {str(a): b for a, b in v.items()})
                                        for k, v in model.snapshot().items()}}
    return {'evals': 1, 'sigs': [digest] if waited else [], 'stats': stats,
            'violations': violations, 'sample': sample}
