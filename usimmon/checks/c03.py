"""C03 - the kernel never fails on its own: no leaked signal, internal error or livelock"""
import random

from .. import bootstrap  # noqa: F401
from ..gen import Gen
from ..prog import execute
from ..probe import Session

PROPERTY = 'C03'
LEVEL = 'fault_enumeration'
RULE = (
    'random valid programs over the whole API (prog.py/gen.py), each executed un-injected '
    'and then re-executed with task.cancel() of a named task injected at activation '
    'boundaries (quick: sampled, thorough: every boundary x up to 3 victims); an execution '
    'is non-trivial if >= 2 distinct activities were activated and at least one foreign '
    'signal (cancel, scope abort, until-interrupt, close) was observed by program code or a '
    'scope/until block was left; distinct = distinct activation trace (label,time) sequence'
)
LEVEL_TEXT = (
    'Fault enumeration by runtime monitoring: thousands of random valid programs over the whole '
    'API are executed on the real kernel; cancellations are injected at activation boundaries '
    '(sampled in quick, every boundary x 3 victims in thorough). Deciding oracles: outcome '
    'classifier of run(), per-await exception classifier in the interpreter, signal-ownership, '
    'revocation and livelock monitors in the kernel probe. Held = no execution observed '
    'violated; not a proof.')
TECHNIQUE = 'runtime monitoring: kernel probe invariants + exception/outcome classifier over generated fault-injected programs'
ASSUMPTIONS = [
    'programs are drawn from the scenario language of usimmon/prog.py within its size bounds',
    'CPython 3.12.1, configurations base/SD/-O/junk rotated over shards',
    'probe attaches to Loop.run, Loop.schedule, Loop._run_coroutine',
]
REQUIRED_STATS = ['activations', 'owner_checked', 'exceptions_observed', 'injected']


def n_cases(tier):
    return 1200 if tier == 'quick' else 12000


def make_case(seed, index, tier):
    return {'gen': 'general', 'seed': seed, 'index': index, 'tier': tier}


def build(case):
    rng = random.Random('%s/%s/c03' % (case['seed'], case['index']))
    style = rng.random()
    kwargs = {}
    if style < 0.3:
        # scope/until heavy: notifications that already hold, children that fail early
        kwargs['weights'] = {'until': 14, 'scope': 10, 'raise': 3, 'cancel': 6,
                             'lock': 1, 'borrow': 1, 'transfer': 1, 'put': 1, 'get': 1}
    elif style < 0.45:
        kwargs['weights'] = {'cancel': 8, 'await_task': 6, 'spawn': 5, 'scope': 10}
    kwargs['start_times'] = (0, 0, -5, 0.5, 7)
    return Gen(rng, **kwargs).program(), rng


def one_run(program, plan=None):
    sess = Session()

    def prepare(env):
        if plan:
            for n, name in plan:
                def action(s, name=name, env=env):
                    task = env.tasks.get(name)
                    if task is not None:
                        s.stats['injected'] += 1
                        task.cancel('injected')
                    else:
                        s.stats['inject_no_victim'] += 1
                sess.at_boundary(n, action)
    env, outcome = execute(program, sess, prepare)
    return env, sess


def run_case(case):
    program, rng = build(case)
    if case.get('plan') is not None:
        runs = [case['plan']]
    else:
        runs = [None]
    violations = []
    sigs = []
    stats = {'activations': 0, 'owner_checked': 0, 'exceptions_observed': 0, 'injected': 0,
             'outcomes': {}, 'ops': {}}
    evals = 0
    sample = None
    queue = list(runs)
    first = True
    while queue:
        plan = queue.pop(0)
        env, sess = one_run(program, plan)
        evals += 1
        stats['activations'] += sess.n
        for key in ('owner_checked', 'exceptions_observed', 'injected', 'due_checked',
                    'scheduled', 'inject_no_victim', 'spawn_refused'):
            stats[key] = stats.get(key, 0) + sess.stats.get(key, 0)
        for key, value in sess.stats.items():
            if key.startswith('op:'):
                stats['ops'][key[3:]] = stats['ops'].get(key[3:], 0) + value
        out = env.outcome if env.outcome in ('ok', 'abort') else 'exception'
        stats['outcomes'][out] = stats['outcomes'].get(out, 0) + 1
        labels = {label for label, _ in sess.trace}
        if len(labels) >= 2 and (sess.stats.get('exceptions_observed') or env.ended_scopes):
            sigs.append(sess.signature())
        for vio in sess.violations:
            vio = dict(vio)
            vio['case'] = dict(case, plan=plan)
            violations.append(vio)
        if first:
            first = False
            if case.get('plan') is None:
                total = sess.n
                names = sorted(env.tasks)
                if names and total:
                    if case['tier'] == 'thorough':
                        victims = rng.sample(names, min(3, len(names)))
                        for name in victims:
                            for n in range(1, total + 2):
                                queue.append([[n, name]])
                        for _ in range(min(10, total)):
                            queue.append([[rng.randint(1, total + 1), rng.choice(names)],
                                          [rng.randint(1, total + 1), rng.choice(names)]])
                    else:
                        for _ in range(min(6, total)):
                            queue.append([[rng.randint(1, total + 1), rng.choice(names)]])
            if sample is None:
                sample = {'program': program, 'outcome': env.outcome,
                          'events': [list(map(str, ev)) for ev in sess.events[:25]],
                          'activations': sess.n}
    return {'evals': evals, 'sigs': sigs, 'stats': stats, 'violations': violations,
            'sample': sample if case['index'] < 16 else None}
