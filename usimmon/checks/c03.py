"""C03 - the kernel never fails on its own: no leaked signal, internal error or livelock"""
import random

from .. import bootstrap  # noqa: F401
from ..gen import Gen
from ..prog import execute
from ..probe import Session  # noqa: F401
from . import common

PROPERTY = 'C03'
LEVEL = 'fault_enumeration'
RULE = (
    'random valid programs over the whole API (prog.py/gen.py), each executed un-injected '
    'and then re-executed with task.cancel() of a named task injected at activation '
    'boundaries (quick: sampled, thorough: every boundary x up to 3 victims); an execution '
    'is non-trivial if >= 2 distinct activities were activated and at least one foreign '
    'signal (cancel, scope abort, until-interrupt, close) was observed by program code or a '
    'scope/until block was left; distinct = distinct activation trace (label,time) sequence. '
    'Every 60th case runs 2-4 OS threads that each execute such programs at the same time '
    '(switch interval 1 us), every simulation judged by the same monitors'
)
RULE = RULE + (' Further scenario families (every 20th-40th case): waits woken 700-2500 times before they hold, wide and deep programs (blocks nested up to 150 levels, 700 children failing at once), environments of the SimPy-style layer embedded with abandoned entering, arguments at the ends of the float range; probe monitors for activations that spin (function calls) or that resume through an ever longer chain of awaits.')

LEVEL_TEXT = (
    'Fault enumeration by runtime monitoring: thousands of random valid programs over the whole '
    'API are executed on the real kernel; cancellations are injected at activation boundaries '
    '(sampled in quick, every boundary x 3 victims in thorough). Deciding oracles: outcome '
    'classifier of run(), per-await exception classifier in the interpreter, signal-ownership, '
    'revocation and livelock monitors in the kernel probe. Held = no execution observed '
    'violated; not a proof.')
TECHNIQUE = 'runtime monitoring: kernel probe invariants + exception/outcome classifier over generated fault-injected programs'
ASSUMPTIONS = [
    'programs are drawn from the scenario language of usimmon/prog.py within its size bounds',
    'CPython 3.12.1, configurations base/SD/-O/junk rotated over shards',
    'probe attaches to Loop.run, Loop.schedule, Loop._run_coroutine',
]
REQUIRED_STATS = ['activations', 'owner_checked', 'exceptions_observed', 'injected',
                  'programs_in_threads']


def n_cases(tier):
    return 1200 if tier == 'quick' else 6000


def make_case(seed, index, tier):
    if index % 60 == 59:
        # the same kind of programs, several simulations in progress at once in OS threads
        return {'gen': 'threads', 'seed': seed, 'index': index, 'tier': tier}
    return {'gen': 'general', 'seed': seed, 'index': index, 'tier': tier}


def build(case):
    rng = random.Random('%s/%s/c03' % (case['seed'], case['index']))
    style = rng.random()
    kwargs = {}
    if style < 0.3:
        # scope/until heavy: notifications that already hold, children that fail early
        kwargs['weights'] = {'until': 14, 'scope': 10, 'raise': 3, 'cancel': 6,
                             'lock': 1, 'borrow': 1, 'transfer': 1, 'put': 1, 'get': 1}
    elif style < 0.45:
        kwargs['weights'] = {'cancel': 8, 'await_task': 6, 'spawn': 5, 'scope': 10}
    kwargs['start_times'] = (0, 0, 0, -5, 0.5, 7, 2.0 ** 53)
    # now and then an activity runs a complete simulation of its own (nested run())
    kwargs.setdefault('weights', {})['nested'] = 0.6
    kwargs['weights']['phases'] = 1
    return Gen(rng, **kwargs).program(), rng


def relevant(mechanism):
    """C03 decides with everything except the scope-content/containment/lifecycle monitors"""
    return not mechanism.startswith(('c04:', 'c05:', 'c06:', 'c07:', 'c20:'))


def nontrivial(env, sess):
    labels = {label for label, _ in sess.trace}
    return len(labels) >= 2 and bool(sess.stats.get('exceptions_observed') or env.ended_scopes)


def one_run(program, plan=None):
    return common.one_run(program, plan)


def d16_canary():
    """Dedicated scenario for known finding D16 (deterministic: the cyclic collector is kept
    out while it runs).  A task that iterates an async generator of usim *bound to a local
    name* is closed by its scope while suspended in ``__anext__``.  On CPython 3.12 closing
    does not reach the generator (``asend.close()`` is a no-op) and the frame object kept alive
    by the traceback of an earlier wake-up still references the generator, so first()'s
    internal scope lives on and later wakes the closed coroutine."""
    import gc
    import usim
    from usim import Scope, time

    async def slow(delay):
        await (time + delay)
        return delay

    async def consumer():
        await (time + 1)
        iterator = usim.first(slow(5), slow(6))
        async for _ in iterator:
            pass

    async def main():
        try:
            async with Scope() as scope:
                scope.do(consumer())
                await (time + 2)
                raise KeyError('abort')
        except KeyError:
            pass
        await (time + 10)

    sess = Session()
    was_enabled = gc.isenabled()
    gc.disable()
    try:
        root = main()
        kind, exc = sess.run(root)
    finally:
        if was_enabled:
            gc.enable()
    gc.collect()
    if kind == 'exc' and isinstance(exc, RuntimeError) and 'cannot reuse already awaited' in str(exc):
        return [{'mechanism': 'closed-while-iterating-named-asyncgen',
                 'msg': 'run() ended with RuntimeError(cannot reuse already awaited coroutine): '
                        'a task closed while suspended in `async for` over first() held in a '
                        'local variable is resumed by first()\'s left-over internal scope',
                 'case': {'canary': 'd16'}}]
    if kind != 'ok':
        return [{'mechanism': 'run-ended-with-foreign:%s' % type(exc).__name__,
                 'msg': 'D16 canary ended with %r' % (exc,), 'case': {'canary': 'd16'}}]
    return []


def d22_canary():
    """Dedicated scenario for repaired defect D22: an activity that holds a lock around a
    scope is closed by its parent in the time step in which a child of that scope failed with a
    SystemExit: the scope answers the close with the SystemExit, the lock block is left by it
    while the *closing* activity is the current one.  run() must end with that SystemExit."""
    import usim
    from usim import Scope, Lock, eternity

    class Stop(SystemExit):
        pass

    async def bad():
        raise Stop('stop requested')

    async def fails():
        raise KeyError('unrelated')

    async def holder(lock):
        async with lock:
            async with Scope() as scope:
                scope.do(bad())
                await eternity

    async def main():
        lock = Lock()
        async with Scope() as outer:
            outer.do(holder(lock))
            outer.do(fails())
            await eternity

    sess = Session()
    root = main()
    kind, exc = sess.run(root)
    if kind == 'exc' and isinstance(exc, Stop):
        return []
    return [{'mechanism': 'lock-exit-assertion-while-owner-is-closed',
             'msg': 'an activity holding a lock is closed while a child of an inner scope failed '
                    'with SystemExit: run() ended with %r instead of that SystemExit' % (exc,),
             'case': {'canary': 'd22'}}]


def d15_canary():
    """Dedicated scenario for known finding D15: first() with an activity that fails while the
    consumer is suspended inside its own loop body."""
    from ..c02trace import D15_CANARY, D15_CANARY_PENDING
    found = []
    for program in (D15_CANARY, D15_CANARY_PENDING):
        env, sess = one_run(program, None)
        found += [dict(vio, case={'canary': 'd15'}) for vio in sess.violations
                  if vio['mechanism'] == 'first-internal-cancelscope-hits-consumer'][:1]
    return found[:1]


def run_threads(case):
    """valid programs stay valid when other threads run simulations of their own: every
    simulation is judged by the same classifiers and kernel monitors as when run alone"""
    import sys
    import threading
    from ..c02trace import build_single as build_program
    from .c15 import digest_of
    rng = random.Random('%s/%s/c03-threads' % (case['seed'], case['index']))
    stats = {'activations': 0, 'thread_batches': 1, 'programs_in_threads': 0,
             'thread_switches_observed': 0}
    for key in common.STAT_KEYS:
        stats[key] = 0
    pool = []
    index = case['index'] * 1000
    while len(pool) < 8 and index < case['index'] * 1000 + 120:
        program = build_program(case['seed'], index)
        index += 1
        _, sess, clean = digest_of(program)
        # only programs that end with all their activities finished: what the collector does
        # with left-over coroutines in another thread is not the subject here
        if clean and not [v for v in sess.violations if relevant(v['mechanism'])]:
            pool.append(program)
    violations = []
    sigs = []
    if len(pool) < 2:
        return {'evals': 0, 'sigs': [], 'stats': stats, 'violations': []}
    n_threads = rng.choice([2, 3, 4])
    per_thread = 6 if case['tier'] == 'quick' else 20
    picks = [[rng.randrange(len(pool)) for _ in range(per_thread)] for _ in range(n_threads)]
    found = []
    errors = []
    gate = threading.Barrier(n_threads)

    def worker(number):
        try:
            gate.wait(30)
            for which in picks[number]:
                env, sess = common.one_run(pool[which], None)
                found.append((number, which, sess, env))
        except BaseException as exc:  # noqa: B902
            errors.append('thread %d crashed: %r' % (number, exc))

    old_interval = sys.getswitchinterval()
    sys.setswitchinterval(1e-6)
    threads = [threading.Thread(target=worker, args=(number,), name='worker')
               for number in range(n_threads)]
    try:
        for thread in threads:
            thread.start()
        for thread in threads:
            thread.join(600)
    finally:
        sys.setswitchinterval(old_interval)
    if any(thread.is_alive() for thread in threads):
        errors.append('a simulation thread did not finish within 600 s')
    for error in errors:
        violations.append({'mechanism': 'thread-error', 'msg': error, 'case': dict(case)})
    for number, which, sess, env in found:
        stats['programs_in_threads'] += 1
        stats['activations'] += sess.n
        stats['thread_switches_observed'] += sess.thread_switches
        for key in common.STAT_KEYS:
            stats[key] += sess.stats.get(key, 0)
        if sess.thread_switches:
            sigs.append('t/' + sess.signature())
        for vio in sess.violations:
            if relevant(vio['mechanism']):
                vio = dict(vio, case=dict(case))
                vio['msg'] = '%s (program %d of the pool, thread %d of %d)' % (
                    vio['msg'], which, number, n_threads)
                violations.append(vio)
        if env.outcome != 'ok':
            violations.append({
                'mechanism': 'thread-influenced-outcome',
                'msg': 'a program that ends normally when run alone ended with %r while other '
                       'threads ran simulations' % (env.outcome,), 'case': dict(case)})
    return {'evals': len(found), 'sigs': sigs, 'stats': stats, 'violations': violations}


def long_waits(case):
    """waits that are woken thousands of times before they hold: the kernel must neither fail
    (recursion, stack) nor accumulate anything per wake-up (the probe samples the depth of the
    chain of awaits of every activity it resumes)"""
    import usim
    from usim import time, until, Flag, Tracked, Scope, eternity
    rng = random.Random('%s/%s/c03-long' % (case['seed'], case['index']))
    wakes = rng.choice([700, 1500, 2500])
    a, b, x = Flag(), Flag(), Tracked(0)
    done = []
    kinds = rng.sample(['and', 'until-and', 'or-of-ands', 'tracked', 'until-tracked', 'nested',
                        'inverted'], 3)

    async def waiter(kind):
        if kind == 'and':
            await (a & b)
        elif kind == 'until-and':
            async with until(a & b):
                await eternity
        elif kind == 'or-of-ands':
            await ((a & b) | (b & a & (x >= wakes * 3)))
        elif kind == 'tracked':
            await ((x >= wakes * 2) & b)
        elif kind == 'until-tracked':
            async with until((x >= wakes * 2) & (x >= 1)):
                await eternity
        elif kind == 'inverted':
            await (~(~a | ~b))
        else:
            await (a & (b & a))
        done.append((kind, time.now))

    async def driver():
        for number in range(wakes):
            # (a waiter only listens to the operands that are false when it looks: the two
            # flags take turns, so every round wakes it and it never finds both of them set)
            flag = b if number % 2 else a
            await flag.set(True)
            await x.set(x.value + 1)
            if number % 50 == 0:
                await (time + 1)
            await flag.set(False)
            await x.set(x.value + 1)
        await b.set(True)
        await a.set(True)

    async def main():
        async with Scope() as scope:
            for kind in kinds:
                scope.do(waiter(kind))
            scope.do(driver())
    sess = Session(budget_per_step=400000, budget_total=4000000)
    root = main()
    root.__name__ = root.__qualname__ = 'long-waits'
    outcome = sess.run(root)
    violations = [dict(v, case=dict(case)) for v in sess.violations
                  if v['mechanism'].startswith('kernel-')]
    end = (wakes + 49) // 50
    if outcome[0] != 'ok':
        violations.append({'mechanism': 'internal-error:%s' % type(outcome[1]).__name__,
                           'msg': 'waits woken %d times before they hold: run() ended with %r' % (
                               wakes, outcome[1]), 'case': dict(case)})
    elif sorted(done) != sorted((kind, end) for kind in kinds):
        violations.append({'mechanism': 'long-wait-not-completed',
                           'msg': 'waits %s woken %d times before they hold at %r completed as %s'
                                  % (kinds, wakes, end, done), 'case': dict(case)})
    return {'evals': 1, 'sigs': [], 'violations': violations,
            'stats': {'long_waits': len(kinds), 'wakeups_of_long_waits': wakes * len(kinds),
                      'activations': sess.n}}


def wide_and_deep(case):
    """programs that are small in text but deep (blocks nested 30-150 levels, connectives nested
    as deep) or wide (hundreds of children failing at once, hundreds of waiters / contenders):
    the kernel has no business failing on size (RecursionError, quadratic blow-up, lost wake-up)"""
    import usim
    from usim import time, until, Flag, Lock, Scope, Concurrent
    rng = random.Random('%s/%s/c03-size' % (case['seed'], case['index']))
    depth = rng.choice([30, 60, 150])
    width = rng.choice([100, 300, 700])
    kind = rng.choice(['nested-until', 'nested-scopes-failure', 'nested-scopes-cancel',
                       'deep-connective', 'wide-failure', 'wide-flag', 'wide-lock'])
    log = []
    expect_log = None
    expect_failure = None

    class Deep(KeyError):
        pass

    async def idle():
        await (time + 1000)

    if kind == 'nested-until':
        # all deadlines at 3 (they strike at once), or the inner ones later than the outer
        same = rng.random() < 0.5

        async def level(n):
            if n == 0:
                await (time + 50)
                log.append('innermost completed')
            else:
                async with until(time >= (3 if same else 3 + n * 0.001)):
                    await level(n - 1)
                if n == depth:
                    log.append(('outermost left', time.now))

        async def main():
            await level(depth)
        # (the innermost block has the earliest deadline; once it is struck all bodies are done)
        expect_log = [('outermost left', 3 if same else 3.001)]
    elif kind in ('nested-scopes-failure', 'nested-scopes-cancel'):
        async def level(n):
            async with Scope() as scope:
                scope.do(idle(), volatile=rng.random() < 0.5)
                if n == 0:
                    await (time + 2)
                    if kind == 'nested-scopes-failure':
                        raise Deep('innermost')
                    await (time + 50)
                else:
                    await level(n - 1)

        if kind == 'nested-scopes-failure':
            async def main():
                await level(depth)
            expect_failure = Deep
        else:
            async def main():
                async with Scope() as scope:
                    task = scope.do(level(depth))
                    await (time + 4)
                    task.cancel()
                    await task.done
                    log.append(('cancelled', time.now, task.status.name))
            expect_log = [('cancelled', 4, 'CANCELLED')]
    elif kind == 'deep-connective':
        flags = [Flag() for _ in range(depth)]
        cond = flags[-1]
        for number in range(depth - 2, -1, -1):
            cond = (flags[number] & cond) if number % 2 else (flags[number] | cond)

        def truth(values, number=0):
            if number == depth - 1:
                return values[number]
            rest = truth(values, number + 1)
            return (values[number] and rest) if number % 2 else (values[number] or rest)
        values = [False] * depth
        order = list(range(1, depth))     # flag 0 is or-ed on top: leave it alone
        rng.shuffle(order)
        holds_at = None
        for step, number in enumerate(order):
            values[number] = True
            if truth(values):
                holds_at = step + 1
                break

        async def driver():
            for number in order:
                await (time + 1)
                await flags[number].set()

        async def main():
            async with Scope() as scope:
                scope.do(driver())
                await cond
                log.append(('holds', time.now))
        expect_log = [('holds', holds_at)]
    elif kind == 'wide-failure':
        async def fails(number):
            await (time + 1)
            raise Deep(number)

        async def main():
            try:
                async with Scope() as scope:
                    for number in range(width):
                        scope.do(fails(number))
            except Concurrent as err:
                log.append(('concurrent', time.now, all(
                    isinstance(child, Deep) for child in err.children), len(err.children) >= 1))
        expect_log = [('concurrent', 1, True, True)]
    elif kind == 'wide-flag':
        flag = Flag()

        async def waits(number):
            await flag
            log.append(number)

        async def main():
            async with Scope() as scope:
                for number in range(width):
                    scope.do(waits(number))
                await (time + 1)
                await flag.set()
        expect_log = list(range(width))
    else:
        lock = Lock()

        async def contends(number):
            async with lock:
                log.append(number)
                if number % 50 == 0:
                    await (time + 1)

        async def main():
            async with Scope() as scope:
                for number in range(width):
                    scope.do(contends(number))
        expect_log = list(range(width))
    sess = Session(budget_per_step=400000, budget_total=4000000)
    root = main()
    root.__name__ = root.__qualname__ = kind
    outcome = sess.run(root)
    violations = [dict(v, case=dict(case)) for v in sess.violations
                  if v['mechanism'].startswith('kernel-')]
    what = '%s (depth %d, width %d)' % (kind, depth, width)
    if expect_failure is not None:
        if outcome[0] != 'exc' or type(outcome[1]) is not expect_failure:
            violations.append({'mechanism': 'internal-error:%s' % type(outcome[1]).__name__,
                               'msg': '%s: run() ended with %r, expected the failure raised by '
                                      'the program' % (what, outcome[1]), 'case': dict(case)})
    elif outcome[0] != 'ok':
        violations.append({'mechanism': 'internal-error:%s' % type(outcome[1]).__name__,
                           'msg': '%s: run() ended with %r' % (what, outcome[1]),
                           'case': dict(case)})
    elif log != expect_log:
        violations.append({'mechanism': 'large-program-wrong-outcome',
                           'msg': '%s: logged %s, expected %s' % (
                               what, str(log)[:300], str(expect_log)[:300]), 'case': dict(case)})
    try:
        root.close()
    except BaseException:  # noqa: B902
        pass
    return {'evals': 1, 'sigs': [], 'violations': violations,
            'stats': {'wide_or_deep_programs': 1, 'activations': sess.n}}


def embedded_environments(case):
    """usim.py environments embedded in a native simulation - entered late, with an initial time
    in the future, the entering abandoned (enclosing until fires, task cancelled), with
    processes created before and after entering, failing or not: whatever happens, run() ends
    normally or with an exception the program raised - never with an internal signal or error"""
    import usim
    import usim.py as usimpy
    from usim import time, until, Scope, TaskCancelled
    rng = random.Random('%s/%s/c03-env' % (case['seed'], case['index']))
    initial = rng.choice([0, 0, 3, 5])
    abandon = rng.choice([None, None, 'until', 'cancel', 'fail'])
    abandon_at = rng.choice([0, 1, 2, 4, 6])
    failing = rng.random() < 0.6
    log = []

    class ProcFail(Exception):
        pass

    def process(env, number, fails):
        yield env.timeout(number + 1)
        log.append(('process', number, env.now))
        if fails:
            raise ProcFail(number)
        yield env.timeout(1)

    env = usimpy.Environment(initial)
    before = rng.randint(0, 2)
    for number in range(before):
        env.process(process(env, number, failing and number == 0))

    async def embedded():
        async with env:
            for number in range(before, before + rng.randint(0, 2)):
                env.process(process(env, number, failing and number == before))
            await (time + 8)

    async def main():
        await (time + rng.choice([0, 1]))
        try:
            if abandon == 'until':
                async with until(time + abandon_at):
                    await embedded()
            elif abandon == 'cancel':
                async with Scope() as scope:
                    task = scope.do(embedded())
                    await (time + abandon_at)
                    task.cancel()
                    try:
                        await task
                    except TaskCancelled:
                        pass
            elif abandon == 'fail':
                async with Scope() as scope:
                    scope.do(embedded())
                    await (time + abandon_at)
                    raise ProcFail('body')
            else:
                await embedded()
        except (ProcFail, usim.Concurrent) as err:
            leaves = list(err.flattened().children) if isinstance(err, usim.Concurrent) else [err]
            if not all(isinstance(leaf, ProcFail) for leaf in leaves):
                raise
            log.append(('failed as programmed', time.now))
        await (time + 20)
        log.append(('end', time.now))

    sess = Session()
    root = main()
    root.__name__ = root.__qualname__ = 'embedded-env'
    outcome = sess.run(root)
    violations = [dict(v, case=dict(case)) for v in sess.violations
                  if v['mechanism'].startswith('kernel-')]
    if outcome[0] != 'ok':
        violations.append({
            'mechanism': 'internal-error:%s' % type(outcome[1]).__name__, 'case': dict(case),
            'msg': 'environment(initial_time=%r) embedded in a native simulation (%d processes '
                   'made before entering, entering abandoned by %s at +%r): run() ended with %r '
                   'after %s' % (initial, before, abandon, abandon_at, outcome[1], log[-3:])})
    try:
        root.close()
    except BaseException:  # noqa: B902
        pass
    return {'evals': 1, 'sigs': [], 'violations': violations,
            'stats': {'embedded_environments': 1, 'activations': sess.n}}


def extreme_values(case):
    """valid arguments at the ends of the float range - denormal volumes, quotients that
    underflow or overflow, spans of time the clock cannot resolve, dates near the largest float:
    the kernel may round, it may not fail (its own assertions about dates included)"""
    import math
    import usim
    from usim import time, until, Pipe, UnboundedPipe, Scope
    rng = random.Random('%s/%s/c03-extreme' % (case['seed'], case['index']))
    menu = {
        'UnboundedPipe.transfer(1e-300, 1e30)': lambda: UnboundedPipe().transfer(1e-300, 1e30),
        'UnboundedPipe.transfer(5e-324, 3)': lambda: UnboundedPipe().transfer(5e-324, 3),
        'UnboundedPipe.transfer(1e300, 1e-300)': lambda: UnboundedPipe().transfer(1e300, 1e-300),
        'Pipe(1e-300).transfer(1e-300)': lambda: Pipe(1e-300).transfer(1e-300),
        'Pipe(1e300).transfer(1e308)': lambda: Pipe(1e300).transfer(1e308),
        'Pipe(2).transfer(5e-324)': lambda: Pipe(2).transfer(5e-324),
        'Pipe(2).transfer(1e-320, 1)': lambda: Pipe(2).transfer(1e-320, 1),
        'time + 5e-324': lambda: time + 5e-324,
        'time + 1e308': lambda: time + 1e308,
        'time >= 1e308': lambda: time >= 1e308,
        'time + 1e-30': lambda: time + 1e-30,
    }
    chosen = rng.sample(sorted(menu), rng.randint(2, 5))
    start = rng.choice([0, 1, 1e6, -1])
    log = []

    async def user(name):
        await (time + rng.choice([0, 1]))
        for _ in range(2):
            await menu[name]()
        async with until(time + rng.choice([5e-324, 1e-30, 1])):
            await menu[name]()
        log.append(name)

    async def main():
        async with Scope() as scope:
            for name in chosen:
                scope.do(user(name))

    sess = Session()
    root = main()
    root.__name__ = root.__qualname__ = 'extreme-values'
    outcome = sess.run(root, start=start)
    violations = [dict(v, case=dict(case)) for v in sess.violations
                  if v['mechanism'].startswith('kernel-')]
    if outcome[0] != 'ok':
        violations.append({'mechanism': 'internal-error:%s' % type(outcome[1]).__name__,
                           'case': dict(case),
                           'msg': 'operations %s from time %r: run() ended with %r' % (
                               chosen, start, outcome[1])})
    elif sorted(log) != sorted(chosen):
        violations.append({'mechanism': 'large-program-wrong-outcome', 'case': dict(case),
                           'msg': 'operations %s from time %r: only %s completed' % (
                               chosen, start, log)})
    try:
        root.close()
    except BaseException:  # noqa: B902
        pass
    return {'evals': 1, 'sigs': [], 'violations': violations,
            'stats': {'extreme_value_programs': 1, 'activations': sess.n}}


def crowds_at_the_edge(case):
    """many activities asking the same primitive for the last of something in one time step: a
    closed queue with fewer buffered items than readers, the last unit of a resource claimed by
    several, a lock freed for a crowd, a flag toggled by its own waiters. Every one of them gets
    an answer of the documented kind (an item or StreamClosed, the unit or ResourcesUnavailable)
    and the run ends normally."""
    import usim
    from usim import time, Scope, Queue, Channel, Lock, Resources, Capacities, Flag, StreamClosed
    from usim import ResourcesUnavailable, instant
    rng = random.Random('%s/%s/c03-crowd' % (case['seed'], case['index']))
    readers = rng.randint(2, 6)
    buffered = rng.randint(0, readers - 1)
    closed_early = rng.random() < 0.7
    start = rng.choice([0, 0, 3, -2, 2.0 ** 60])
    log = []
    queue, channel, lock, gate = Queue(), Channel(), Lock(), Flag()
    supply = (Resources if rng.random() < 0.5 else Capacities)(a=1)
    modes = [rng.choice(['get', 'iter', 'get-twice']) for _ in range(readers)]

    async def reader(number, mode):
        await (time + 5)
        try:
            if mode == 'iter':
                async for item in queue:
                    log.append(('reader', number, item))
            else:
                log.append(('reader', number, await queue))
                if mode == 'get-twice':
                    log.append(('reader', number, await queue))
        except StreamClosed:
            pass
        log.append(('reader', number, 'closed'))        # (or served)

    async def listener(number):
        await (time + 5)
        try:
            log.append(('listener', number, await channel))
        except StreamClosed:
            log.append(('listener', number, 'closed'))

    async def claimant(number):
        await (time + 5)
        try:
            async with supply.claim(a=1):
                log.append(('claimant', number, 'got it'))
                await instant
        except ResourcesUnavailable:
            log.append(('claimant', number, 'unavailable'))

    async def contender(number):
        await (time + 5)
        async with lock:
            log.append(('contender', number, 'inside'))
        async with lock:
            await instant

    async def toggler(number):
        await (time + 5)
        await gate
        await gate.set(False)
        log.append(('toggler', number, 'through'))
        await gate.set(True)

    async def feeder():
        for item in range(buffered):
            await queue.put(item)
        if closed_early:
            await queue.close()
            await channel.close()
        await (time + 5)
        if not closed_early:
            await queue.close()
            await channel.close()
        await gate.set()

    async def main():
        async with Scope() as scope:
            scope.do(feeder())
            for number, mode in enumerate(modes):
                scope.do(reader(number, mode))
                scope.do(listener(number))
                scope.do(claimant(number))
                scope.do(contender(number))
                scope.do(toggler(number))

    sess = Session()
    root = main()
    root.__name__ = root.__qualname__ = 'crowd'
    outcome = sess.run(root, start=start)
    violations = [dict(v, case=dict(case)) for v in sess.violations
                  if v['mechanism'].startswith('kernel-')]
    what = '%d readers (%s) of a queue with %d items closed %s, as many listeners of a closed ' \
           'channel, claimants of one unit, contenders of a lock, togglers of a flag, from time ' \
           '%r' % (readers, modes, buffered, 'before they ask' if closed_early else
                   'in the time step in which they ask', start)
    if outcome[0] != 'ok':
        violations.append({'mechanism': 'internal-error:%s' % type(outcome[1]).__name__,
                           'case': dict(case),
                           'msg': '%s: run() ended with %r' % (what, outcome[1])})
    else:
        items = sorted(entry[2] for entry in log if entry[0] == 'reader' and entry[2] != 'closed')
        done = {kind: sum(1 for entry in log if entry[0] == kind and entry[2] in last)
                for kind, last in (('reader', ('closed',)), ('listener', ('closed',)),
                                   ('contender', ('inside',)), ('toggler', ('through',)))}
        claims = [entry[2] for entry in log if entry[0] == 'claimant']
        if items != list(range(buffered)) or any(count != readers for count in done.values()) \
                or len(claims) != readers or 'got it' not in claims:
            violations.append({'mechanism': 'large-program-wrong-outcome', 'case': dict(case),
                               'msg': '%s: logged %s' % (what, log)})
    try:
        root.close()
    except BaseException:  # noqa: B902
        pass
    return {'evals': 1, 'sigs': [sess.signature()], 'violations': violations,
            'stats': {'crowd_programs': 1, 'activations': sess.n}}


def handed_over_and_withdrawn(case):
    """while the owner of a block waits at its end for the children, somebody else hands the block
    another task and withdraws it in the same breath (cancelled before it ever ran) - before,
    in, or after the time step in which the last child ends: the block ends when its children
    have ended, the kernel neither spins nor fails"""
    import usim
    from usim import time, Scope, instant
    from usim._primitives.context import ScopeClosed
    rng = random.Random('%s/%s/c03-handed' % (case['seed'], case['index']))
    child_ends = rng.choice([2, 3])
    hand_over_at = rng.choice([1, child_ends, child_ends, child_ends + 1])
    early_helper = rng.random() < 0.5          # queued for that time before / after the child
    how_many = rng.randint(1, 3)
    withdraw = rng.choice(['cancel', 'cancel', 'cancel-later', 'keep'])
    log = []
    box = {}

    async def work(duration):
        await (time + duration)

    async def helper():
        if not early_helper:
            await instant
        await (time + hand_over_at)
        for _ in range(how_many):
            try:
                task = box['scope'].do(work(0.5))
            except ScopeClosed:
                log.append(('refused', time.now))
                continue
            log.append(('accepted', time.now))
            if withdraw == 'cancel':
                task.cancel()
            elif withdraw == 'cancel-later':
                await instant
                task.cancel()

    async def owner():
        async with Scope() as scope:
            box['scope'] = scope
            scope.do(work(child_ends))
        log.append(('block left', time.now))

    async def main():
        async with Scope() as outer:
            if early_helper:
                outer.do(helper())
                outer.do(owner())
            else:
                outer.do(owner())
                outer.do(helper())

    sess = Session()
    root = main()
    root.__name__ = root.__qualname__ = 'handed-over'
    outcome = sess.run(root)
    violations = [dict(v, case=dict(case)) for v in sess.violations
                  if v['mechanism'].startswith('kernel-')]
    what = 'a block whose child ends at %r; at %r somebody (queued %s) hands it %d more task(s), ' \
           '%s' % (child_ends, hand_over_at, 'earlier' if early_helper else 'later', how_many,
                   withdraw)
    accepted = [entry for entry in log if entry[0] == 'accepted']
    left = [entry[1] for entry in log if entry[0] == 'block left']
    if outcome[0] != 'ok':
        violations.append({'mechanism': 'internal-error:%s' % type(outcome[1]).__name__,
                           'case': dict(case), 'msg': '%s: run() ended with %r' % (what, outcome[1])})
    elif not left or left[0] != (max(child_ends, hand_over_at + 0.5)
                                 if accepted and withdraw == 'keep' else child_ends):
        violations.append({'mechanism': 'large-program-wrong-outcome', 'case': dict(case),
                           'msg': '%s: logged %s' % (what, log)})
    try:
        root.close()
    except BaseException:  # noqa: B902
        pass
    return {'evals': 1, 'sigs': [sess.signature()], 'violations': violations,
            'stats': {'handed_over_programs': 1, 'activations': sess.n}}


def run_case(case):
    if case.get('gen') == 'threads':
        return run_threads(case)
    if case.get('plan') is None and case['index'] % 40 == 33:
        return handed_over_and_withdrawn(case)
    if case.get('plan') is None and case['index'] % 40 == 13:
        return crowds_at_the_edge(case)
    if case.get('plan') is None and case['index'] % 40 == 37:
        return extreme_values(case)
    if case.get('plan') is None and case['index'] % 20 == 17:
        return embedded_environments(case)
    if case.get('plan') is None and case['index'] % 40 == 27:
        return wide_and_deep(case)
    if case.get('plan') is None and case['index'] % 40 == 7:
        return long_waits(case)
    if case.get('canary') == 'd15':
        return {'evals': 1, 'sigs': [], 'stats': {'canary_runs': 1}, 'violations': d15_canary()}
    if case.get('canary') == 'd22':
        return {'evals': 1, 'sigs': [], 'stats': {'canary_runs': 1}, 'violations': d22_canary()}
    if case.get('canary') == 'd16':
        return {'evals': 1, 'sigs': [], 'stats': {'canary_runs': 1}, 'violations': d16_canary()}
    program, rng = build(case)
    result = common.explore(case, program, rng, relevant, nontrivial)
    if case['index'] == 0 and case.get('plan') is None:
        result['violations'] += d16_canary()
        result['violations'] += d15_canary()
        result['violations'] += d22_canary()
        result['stats']['canary_runs'] = 3
    return result
