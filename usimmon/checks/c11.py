"""C11 - Channel broadcasts every message to every subscribed consumer, in order, once"""
import random

from .. import bootstrap  # noqa: F401
from .. import inject
from .c10 import Blank

import usim
from usim import Channel, StreamClosed, time, instant

PROPERTY = 'C11'
LEVEL = 'fault_enumeration'
RULE = (
    '1-3 producers and 1-6 consumers (iterating, single-shot `await channel`, and both at once '
    'in one activity) subscribing '
    'before / between / after puts, consumers slower than producers, consumers that leave after '
    'k messages, optional close (and puts after close), bursts of 300-5000 messages while a consumer is busy; 40% of the scenarios with equal, equally hashing, falsy message objects and 40% on a Channel that served an earlier complete run(); un-injected run plus cancel / '
    'until-interrupt / close injected at activation boundaries of any consumer or producer '
    '(quick: sampled; thorough: every boundary x participant x kind + double faults). Offline '
    'broadcast checker with unique message ids: each consumer\'s received sequence must be, '
    'message by message, the sequence of accepted puts after its subscription event; nothing '
    'is pending for an idle subscribed consumer at a time-step end or at quiescence; after '
    'close pending messages are still delivered, then iteration ends and await/put raise '
    'StreamClosed. non-trivial = a signal landed, or the reference run; distinct = trace'
)
RULE = RULE + (' Further: the channel itself as the payload of a task, listeners of a closed channel at quiescence, payloads equal to everything, absorbing / negative clocks.')

LEVEL_TEXT = (
    'Fault enumeration by runtime monitoring: per-consumer history checker over the recorded '
    'subscribe / put / receive / close events of the real Channel; signals injected at every '
    'activation boundary of every participant in the thorough tier.')
TECHNIQUE = 'runtime monitoring: per-consumer broadcast history checker with unique message ids, signal injection at activation boundaries'
ASSUMPTIONS = ['a consumer counts as subscribed from the turn in which its iteration / await starts']
REQUIRED_STATS = ['messages_received', 'subscriptions', 'signals_landed', 'struck:cancel',
                  'struck:interrupt', 'struck:close']

GRID = [0, 0, 0, 0.5, 0.5, 1, 1, 2]


class Twin:
    """payload that is equal to every other Twin, hashes alike and is falsy: streams must treat
    messages as opaque objects (identity), never compare, deduplicate or truth-test them"""
    __slots__ = ('ident',)

    def __init__(self, ident):
        self.ident = ident

    def __eq__(self, other):
        return True         # equal to anything at all (private end markers included)

    def __ne__(self, other):
        return False

    def __hash__(self):
        return 0

    def __bool__(self):
        return False

    def __repr__(self):
        return 'Twin(%s)' % self.ident


ODD_TYPES = (StreamClosed, StopAsyncIteration, StopIteration, GeneratorExit, KeyError,
             TimeoutError)


def odd(ident):
    """payloads that are exception *instances* - among them the very types that streams use
    internally to signal their end: as a payload they are values like any other"""
    payload = ODD_TYPES[sum(map(ord, ident)) % len(ODD_TYPES)](ident)
    payload.ident = ident
    return payload


def unwrap(payload):
    if isinstance(payload, (Twin, Blank, BaseException)):
        return payload.ident
    return payload


def n_cases(tier):
    return 400 if tier == 'quick' else 1500


def make_case(seed, index, tier):
    rng = random.Random('%s/%s/c11' % (seed, index))
    producers = []
    for number in range(rng.randint(1, 3)):
        ops = [{'offset': rng.choice(GRID), 'op': 'put'} for _ in range(rng.randint(1, 6))]
        if rng.random() < 0.4:
            ops.append({'offset': rng.choice(GRID), 'op': 'close'})
            if rng.random() < 0.5:
                ops.append({'offset': rng.choice(GRID), 'op': 'put'})
        producers.append({'name': 'p%d' % number, 'ops': ops})
    consumers = []
    for number in range(rng.randint(1, 6)):
        consumers.append({'name': 'c%d' % number,
                          'mode': rng.choice(['iter', 'iter', 'single', 'iter+single']),
                          'count': rng.choice([1, 2, 3, 5, 99]), 'offset': rng.choice(GRID),
                          'work': rng.choice([0, 0, 0.5, 1, 2]),
                          'repeat': rng.randint(1, 3)})
    burst = 0
    if rng.random() < 0.06:
        # a consumer that falls far behind: thousands of messages put while it is busy
        burst = rng.choice([300, 1500, 2500, 5000])
        producers[0]['ops'].insert(rng.randint(0, len(producers[0]['ops'])),
                                   {'offset': rng.choice(GRID), 'op': 'burst', 'n': burst})
        consumers = consumers[:3]
        consumers[0].update(mode='iter', count=10 ** 9, work=rng.choice([0.5, 1, 2]))
    return {'seed': seed, 'index': index, 'tier': tier, 'burst': burst,
            'twins': rng.random() < 0.4, 'reused': rng.random() < 0.4,
            'nones': rng.random() < 0.25, 'early': rng.random() < 0.3,
            'odd': rng.random() < 0.25,
            # a clock that absorbs every delay: subscriptions, puts and closes of "different
            # times" all happen at one and the same date, in successive batches of the loop
            'start': rng.choice([1.7e18, 2.0 ** 70, -1.5, -1, -0.5]) if rng.random() < 0.1 else 0,
            'scenario': {'producers': producers, 'consumers': consumers}}


class ChannelChecker:
    def __init__(self, arena, channel):
        self.arena = arena
        self.sess = arena.sess
        self.channel = channel
        self.puts = []              # accepted messages in put order
        self.none_idents = set()    # messages whose payload is None
        self.closed_at = None       # len(puts) when close() was called
        self.subs = {}              # subscription id -> dict
        self.counter = 0
        self.stats = {'messages_received': 0, 'subscriptions': 0, 'puts_rejected': 0,
                      'singles': 0, 'ended_by_close': 0, 'idle_checks': 0, 'slow_backlog': 0}
        self.sess.step_end_hooks.append(self.step_end)
        self.sess.quiescence_hooks.append(self.quiescence)

    def violation(self, mechanism, msg):
        self.sess.violation('c11:' + mechanism, msg)

    # producers
    def put_start(self, who, message, quiet=False):
        if not quiet:
            self.arena.log(who, 'put-start', message)
        if self.closed_at is None:
            self.puts.append(message)
            return True
        return False

    def put_outcome(self, who, message, accepted_expected, rejected):
        if rejected:
            self.arena.log(who, 'put-rejected', message)
            self.stats['puts_rejected'] += 1
            if accepted_expected:
                self.violation('put-rejected-while-open',
                               'put of %s raised StreamClosed on an open channel' % message)
        else:
            self.arena.log(who, 'put-done', message)
            if not accepted_expected:
                self.violation('put-accepted-after-close',
                               'put of %s was accepted after close' % message)

    def close_start(self, who):
        self.arena.log(who, 'close-start')
        if self.closed_at is None:
            self.closed_at = len(self.puts)

    # consumers
    def subscribe(self, who, single):
        self.counter += 1
        self.arena.log(who, 'subscribe', self.counter)
        self.stats['subscriptions'] += 1
        self.subs[self.counter] = {'who': who, 'from': len(self.puts), 'got': 0, 'state': 'idle',
                                   'single': single, 'closed_on_entry': self.closed_at is not None}
        return self.counter

    def receive(self, sub_id, message):
        sub = self.subs[sub_id]
        if len(self.puts) < 200:
            self.arena.log(sub['who'], 'receive', message)
        self.stats['messages_received'] += 1
        position = sub['from'] + sub['got']
        expected = self.puts[position] if position < len(self.puts) else None
        if message is None and expected in self.none_idents:
            message = expected      # a None payload carries no id: matched by position
        if message != expected:
            self.violation('wrong-message',
                           '%s received %s, the next message after its subscription is %s '
                           '(%d puts, last %s, subscribed at %d, got %d)' % (
                               sub['who'], message, expected, len(self.puts), self.puts[-6:],
                               sub['from'], sub['got']))
        sub['got'] += 1
        sub['state'] = 'busy'
        if sub['single']:
            sub['state'] = 'left'

    def idle(self, sub_id):
        self.subs[sub_id]['state'] = 'idle'

    def leave(self, sub_id, how):
        sub = self.subs[sub_id]
        self.arena.log(sub['who'], 'leave', how)
        if how == 'closed':
            self.stats['ended_by_close'] += 1
            if self.closed_at is None:
                self.violation('ended-while-open',
                               '%s: iteration ended / StreamClosed although nobody closed' % sub['who'])
            elif not sub['single'] or not sub['closed_on_entry']:
                pending = len(self.puts) - (sub['from'] + sub['got'])
                if pending and not sub['single']:
                    self.violation('close-dropped-messages',
                                   '%s: iteration ended with %d pending messages' % (
                                       sub['who'], pending))
                if sub['single'] and pending:
                    self.violation('close-dropped-messages',
                                   '%s: await channel raised StreamClosed although message %s '
                                   'was put while it waited' % (
                                       sub['who'], self.puts[sub['from'] + sub['got']]))
        sub['state'] = 'left'

    def pending_for_idle(self, when, where):
        for sub in self.subs.values():
            if sub['state'] != 'idle':
                continue
            self.stats['idle_checks'] += 1
            missing = self.puts[sub['from'] + sub['got']:]
            if missing:
                self.violation('undelivered',
                               '%s waits for the next message at %s %r but %s were put since '
                               'it subscribed and not delivered' % (
                                   sub['who'], where, when, missing[:8]))

    def ghosts(self, where):
        # early warning on private state: one registered buffer per live subscription
        live = sum(1 for sub in self.subs.values() if sub['state'] in ('idle', 'busy'))
        buffers = getattr(self.channel, '_consumer_buffers', None)
        if buffers is None:
            return          # (private bookkeeping of another shape: not this monitor's business)
        registered = len(buffers)
        self.stats['buffer_count_checks'] = self.stats.get('buffer_count_checks', 0) + 1
        if registered != live and not (
                getattr(self, 'payload_listener', False) and registered == live + 1):
            # (a listener that is the payload of a task subscribes in a turn of its own: while
            # it may be listening one more buffer is in order)
            self.violation('ghost-buffer',
                           '%d buffers registered in the channel but %d consumers are '
                           'subscribed (%s)' % (registered, live, where))

    def step_end(self, sess, loop, prev_time):
        self.pending_for_idle(prev_time, 'the end of time step')
        self.ghosts('end of time step %r' % prev_time)

    def quiescence(self, sess, loop):
        self.pending_for_idle(loop.time, 'quiescence')
        self.ghosts('quiescence')
        # `closed` tells whether the channel has been closed
        self.stats['closed_property_checks'] = self.stats.get('closed_property_checks', 0) + 1
        if self.channel.closed is not (self.closed_at is not None):
            self.violation('closed-property', 'channel.closed is %r at quiescence, close() was %s'
                           % (self.channel.closed,
                              'called' if self.closed_at is not None else 'never called'))
        # nobody keeps listening to a channel that is closed (whatever became of the activity
        # that closed it while it was doing so)
        waiting = [sub['who'] for sub in self.subs.values() if sub['state'] == 'idle']
        self.stats['quiescent_listeners_checked'] = self.stats.get(
            'quiescent_listeners_checked', 0) + len(waiting)
        if waiting and getattr(self.channel, '_closed', False):
            self.violation('listener-not-closed',
                           'at quiescence %s still wait for messages of a closed channel' % (
                               waiting,))


def earlier_simulation(channel):
    """a complete, separate run() in which the same (still open) Channel object was used"""
    import usim

    async def listener(count):
        seen = 0
        async for _ in channel:
            seen += 1
            if seen >= count:
                break

    async def single():
        await channel

    async def main():
        async with usim.Scope() as scope:
            scope.do(listener(2))
            scope.do(listener(3))
            scope.do(single())
            await (time + 1)
            for message in ('x', 'y', 'z'):
                await channel.put(message)
            # consumers that are forcefully closed while waiting when that simulation ends
            scope.do(listener(5), volatile=True)
            scope.do(single(), volatile=True)
            await (time + 1)
    usim.run(main())


def build_for(case):
    scenario = case['scenario']

    def build(arena):
        arena.start = case.get('start', 0)
        channel = inject.made(case, Channel)
        wrap = Twin if case.get('twins') else odd if case.get('odd') else str
        if wrap is str and case['index'] % 3 == 1:
            wrap = Blank
        if case.get('nones'):
            # every other message is None (a valid payload: it must not end an iteration)
            def wrap(message, plain=wrap):
                if len(checker.puts) % 2 == 0:
                    checker.none_idents.add(message)
                    return None
                return plain(message)
        if case.get('reused'):
            earlier_simulation(channel)
        checker = ChannelChecker(arena, channel)

        def producer(spec):
            name = spec['name']

            async def run():
                for number, op in enumerate(spec['ops']):
                    message = '%s.%d' % (name, number)
                    prepared = None
                    if case.get('early') and number % 2 == 0 and op['op'] != 'burst':
                        # the awaitable of the operation is made some time before it is awaited
                        # (like `scope.do(channel.put(x), after=...)`): it acts when awaited
                        prepared = channel.close() if op['op'] == 'close' \
                            else channel.put(wrap(message))
                        checker.stats['prepared_early'] = checker.stats.get('prepared_early', 0) + 1
                    if op['offset']:
                        await (time + op['offset'])
                    if op['op'] == 'close':
                        checker.close_start(name)
                        await (prepared if prepared is not None else channel.close())
                        continue
                    if op['op'] == 'burst':
                        for sub_number in range(op['n']):
                            message = '%s.%d.%d' % (name, number, sub_number)
                            accepted = checker.put_start(name, message, quiet=True)
                            try:
                                await channel.put(wrap(message))
                            except StreamClosed:
                                checker.put_outcome(name, message, accepted, True)
                                break
                            if sub_number % 100 == 99:
                                await (time + 0.001)
                        checker.stats['burst_messages'] = checker.stats.get(
                            'burst_messages', 0) + op['n']
                        continue
                    accepted = checker.put_start(name, message)
                    try:
                        await (prepared if prepared is not None else channel.put(wrap(message)))
                    except StreamClosed:
                        checker.put_outcome(name, message, accepted, True)
                    else:
                        checker.put_outcome(name, message, accepted, False)
            return run

        def consumer(spec):
            name = spec['name']

            async def run():
                if spec['offset']:
                    await (time + spec['offset'])
                if spec['mode'] == 'single':
                    for _ in range(spec['repeat']):
                        sub = checker.subscribe(name, True)
                        checker.stats['singles'] += 1
                        try:
                            message = unwrap(await channel)
                        except StreamClosed:
                            checker.leave(sub, 'closed')
                            break
                        except BaseException:
                            checker.leave(sub, 'struck')
                            raise
                        checker.receive(sub, message)
                        if spec['work']:
                            await (time + spec['work'])
                    return
                sub = checker.subscribe(name, False)
                count = 0
                try:
                    async for message in channel:
                        message = unwrap(message)
                        checker.receive(sub, message)
                        count += 1
                        if count >= spec['count']:
                            checker.leave(sub, 'break')
                            break
                        if spec['mode'] == 'iter+single' and count % 2 == 1:
                            # a second, simultaneous subscription of the *same* activity
                            inner = checker.subscribe(name, True)
                            checker.stats['nested_subscriptions'] = \
                                checker.stats.get('nested_subscriptions', 0) + 1
                            try:
                                extra = unwrap(await channel)
                            except StreamClosed:
                                checker.leave(inner, 'closed')
                            except BaseException:
                                checker.leave(inner, 'struck')
                                raise
                            else:
                                checker.receive(inner, extra)
                        if spec['work']:
                            if len(checker.puts) > checker.subs[sub]['from'] + count:
                                checker.stats['slow_backlog'] += 1
                            await (time + spec['work'])
                        checker.idle(sub)
                    else:
                        checker.leave(sub, 'closed')
                except BaseException:
                    checker.leave(sub, 'struck')
                    raise
            return run
        participants = [(spec['name'], producer(spec)) for spec in scenario['producers']]
        participants += [(spec['name'], consumer(spec)) for spec in scenario['consumers']]
        order = random.Random(case['index']).sample(participants, len(participants))
        background = []
        if case['index'] % 3 == 0:
            # another, independent channel is busy at the same time: channels share nothing
            other = inject.made(case, Channel)

            async def elsewhere():
                async def listener():
                    async for _ in other:
                        await (time + 0.5)

                async with usim.Scope() as scope:
                    scope.do(listener(), volatile=True)
                    scope.do(listener(), volatile=True)
                    await instant
                    for number in range(8):
                        await other.put('other-%d' % number)
                        await (time + 0.5)
                    await other.close()
            background.append(elsewhere())
        if case['index'] % 4 == 2:
            # one more listener, of another style: the channel itself handed to a scope as the
            # payload of a task (like `scope.do(time + 20)`); it gets one message and is done -
            # which concerns nobody else
            async def bystander():
                await (time + [0, 0.5, 1][case['index'] % 3])
                checker.payload_listener = True
                try:
                    async with usim.Scope() as scope:
                        await scope.do(channel)
                except StreamClosed:
                    pass
                except usim.Concurrent as err:
                    if not all(isinstance(child, StreamClosed) for child in err.children):
                        raise
                finally:
                    checker.payload_listener = False
                checker.stats['payload_listeners'] = checker.stats.get('payload_listeners', 0) + 1
            background.append(bystander())
        return order, background, checker
    return build


def check(sess, arena, checker, outcome, plan):
    found = inject.kernel_violations(sess, outcome)
    found += [dict(v) for v in sess.violations if v['mechanism'].startswith('c11:')]
    return found


def run_case(case):
    rng = random.Random('%s/%s/c11-inj' % (case['seed'], case['index']))
    if case.get('burst'):
        return inject.explore(case, build_for(case), rng, check, case['tier'],
                              quick_samples=4, max_plans=4 if case['tier'] == 'quick' else 40)
    return inject.explore(case, build_for(case), rng, check, case['tier'],
                          quick_samples=12, max_plans=400)
