"""C05 - a scope fails as itself or as Concurrent: promptly, with exactly the right content"""
import random

from .. import bootstrap  # noqa: F401
from . import common

PROPERTY = 'C05'
LEVEL = 'exploration'
RULE = (
    'scope trees (depth <= 3, 0-6 children per block, volatile and non-volatile) in which the '
    'body and every child get a fate from {succeed at t, fail at t with one of 7 exception '
    'types incl. SystemExit/KeyboardInterrupt/AssertionError subclasses, fail with a nested '
    'Concurrent, block forever, fail in the clean-up when being closed}; failure times from a colliding grid (simultaneous failures, '
    'failure at spawn time, failure during graceful shutdown, at the time the body raises). '
    'The thorough tier first enumerates ALL assignments for one block with <= 3 children over '
    '3 times x 4 types (65 536 cases), then samples deeper trees; cancellations are injected at '
    'sampled boundaries. Oracle (observational): expected outcome computed from the logged '
    'body outcome and the ordered logged failures of direct children, compared by identity. '
    'non-trivial = a block with a failing child or body was left; distinct = activation trace'
)
RULE = RULE + (" Further: failures that are no Exception (-O configurations), same-named exception classes (type of the Concurrent vs its children), scope classes of the program's own extending SUPPRESS_CONCURRENT / PROMOTE_CONCURRENT, blocks driven by hand through __aenter__/__aexit__, negative start times; a privileged failure of a child is never lost to a signal or a regular body exception.")

LEVEL_TEXT = (
    'Exploration by runtime monitoring: at every block exit of the real code the outcome '
    '(no exception / identical body exception / Concurrent with exactly the logged child '
    'failures in order / promoted privileged exception) and the exit time (virtual time of the '
    'first failure) are compared with a 40-line model fed from the same event log. Exhaustive '
    'for single blocks with <= 3 children in the thorough tier.')
TECHNIQUE = 'runtime monitoring: scope-exit oracle over the recorded failure log (identity, order, promptness)'
ASSUMPTIONS = [
    'a signal that is not the block\'s own (task cancellation, abort of an enclosing block, '
    'close) and strikes body or graceful shutdown counts as the exception the body ended with',
    'precedence between a privileged body exception and a privileged child failure is not '
    'fixed by the statement: both are accepted',
]
REQUIRED_STATS = ['c05_blocks_checked', 'c05_failing_blocks']

TIMES = [0, 0.5, 1]
KINDS = ['err', 'key', 'lookup', 'assert', 'eq', 'eq', 'falsy', 'stream', 'unavailable', 'twin']
ALL_KINDS = ['err', 'err', 'twin', 'key', 'index', 'lookup', 'assert', 'exit', 'kbd', 'eq', 'eq', 'falsy',
             'stream', 'unavailable', 'interval']
if not __debug__:
    # failures that are no Exception at all: wrapped like any other (in debug mode `Concurrent`
    # refuses them with a usage assertion - outside the domain there)
    KINDS = KINDS + ['abort']
    ALL_KINDS = ALL_KINDS + ['abort', 'abort']
FATES = ([('ok', t) for t in TIMES] + [('fail', t, k) for t in TIMES for k in KINDS]
         + [('forever',)])
ENUM = len(FATES) ** 4


def n_cases(tier):
    return 4500 if tier == 'quick' else ENUM + 40000


def make_case(seed, index, tier):
    return {'seed': seed, 'index': index, 'tier': tier}


class Ids:
    def __init__(self):
        self.n = 0
        self.tasks = []

    def __call__(self, prefix):
        self.n += 1
        return '%s%d' % (prefix, self.n)


def fate_steps(fate, ids):
    steps = []
    if fate[0] == 'forever':
        return [{'op': 'wait', 'n': {'k': 'eternity'}, 'id': ids('s')}]
    if fate[1] > 0:
        steps.append({'op': 'wait', 'n': {'k': 'delay', 'd': fate[1]}, 'id': ids('s')})
    if fate[0] == 'fail':
        steps.append({'op': 'raise', 'kind': fate[2], 'tag': ids('e'), 'id': ids('s')})
    return steps


def enumerated(index, rng):
    ids = Ids()
    fates = []
    rest = index
    for _ in range(4):
        fates.append(FATES[rest % len(FATES)])
        rest //= len(FATES)
    children = []
    for fate in fates[1:]:
        children.append({'name': ids('t'), 'volatile': False, 'steps': fate_steps(fate, ids)})
    block = {'op': 'scope', 'n': None, 'catch': False, 'id': ids('b'), 'children': children,
             'body': fate_steps(fates[0], ids), 'manual': rng.random() < 0.25}
    return {'objects': {}, 'roots': [{'name': 'r0', 'steps': [block]}], 'start': 0, 'till': None}


def random_fate(rng, ids, depth, siblings=()):
    roll = rng.random()
    siblings = list(siblings) + ids.tasks
    if siblings and rng.random() < 0.15:
        # await a sibling and let its TaskCancelled / TaskClosed / failure pass through
        steps = []
        if rng.random() < 0.5:
            steps.append({'op': 'wait', 'n': {'k': 'delay', 'd': rng.choice([0.5, 1])},
                          'id': ids('s')})
        steps.append({'op': 'await_task', 'task': rng.choice(siblings), 'reraise': True,
                      'catch': False, 'id': ids('s')})
        return steps
    if depth < 2 and roll < 0.25:
        steps = []
        if rng.random() < 0.4:
            steps.append({'op': 'wait', 'n': {'k': 'delay', 'd': rng.choice([0.5, 1])},
                          'id': ids('s')})
        steps.append(random_block(rng, ids, depth + 1))
        if rng.random() < 0.3:
            steps.append({'op': 'raise', 'kind': rng.choice(ALL_KINDS), 'tag': ids('e'),
                          'id': ids('s')})
        return steps
    if roll < 0.29 and depth < 2:
        # runs long; when the block closes it, its clean-up hands a successor to the block - too
        # late: the block refuses it (a successor that was accepted would fail unnoticed)
        return [{'op': 'guard', 'id': ids('s'),
                 'body': fate_steps(rng.choice([('forever',), ('ok', 2), ('ok', 1.5)]), ids),
                 'child': {'name': ids('t'), 'volatile': False,
                           'steps': fate_steps(('fail', 0.5, rng.choice(KINDS)), ids)}}]
    if roll < 0.32:
        # runs long and fails in its clean-up when the block closes it
        return [{'op': 'fragile', 'kind': rng.choice(ALL_KINDS), 'tag': ids('e'), 'id': ids('s'),
                 'body': fate_steps(rng.choice([('forever',), ('ok', 2), ('ok', 1.5)]), ids)}]
    if roll < 0.5:
        return fate_steps(('ok', rng.choice(TIMES + [1.5, 2])), ids)
    if roll < 0.9:
        return fate_steps(('fail', rng.choice(TIMES + [1.5, 2]), rng.choice(ALL_KINDS)), ids)
    return fate_steps(('forever',), ids)


def random_block(rng, ids, depth):
    children = []
    for _ in range(rng.choice([0, 1, 1, 2, 2, 3, 4, 6])):
        name = ids('t')
        ids.tasks.append(name)
        child = {'name': name, 'volatile': rng.random() < 0.2,
                 'steps': random_fate(rng, ids, depth, [c['name'] for c in children])}
        if rng.random() < 0.15:
            child['after'] = rng.choice([0.5, 1])
        children.append(child)
    notif = None
    if rng.random() < 0.2:
        notif = rng.choice([{'k': 'delay', 'd': 1}, {'k': 'ge', 't': 1.5}, {'k': 'eternity'}])
    return {'op': 'scope', 'n': notif, 'catch': rng.random() < 0.5, 'id': ids('b'),
            'custom': notif is None and rng.random() < 0.15,
            'children': children, 'body': random_fate(rng, ids, depth),
            # (some blocks are driven through __aenter__ / __aexit__ by hand, like AsyncExitStack)
            'manual': rng.random() < 0.2}


def build(case):
    rng = random.Random('%s/%s/c05' % (case['seed'], case['index']))
    index = case['index']
    if case['tier'] == 'thorough' and index < ENUM:
        return enumerated(index, rng), rng
    if case['tier'] == 'quick' and index % 3 == 0:
        return enumerated(rng.randrange(ENUM), rng), rng
    ids = Ids()
    roots = []
    for number in range(rng.randint(1, 2)):
        roots.append({'name': 'r%d' % number, 'steps': [random_block(rng, ids, 0)]})
    objects = {}
    if rng.random() < 0.3:
        # the body of the outermost block sits inside a block of a primitive - a lock somebody
        # else is queued for, borrowed resources somebody else waits for - when it is aborted:
        # whatever leaves the scope's body passes through that block unchanged (the hand-over
        # to the one who waits is none of the scope's business)
        objects = {'locks': len(roots), 'resources': [
            {'kind': 'resources', 'levels': {'a': 2}} for _ in roots]}
        for number, root in enumerate(list(roots)):
            block = root['steps'][0]
            if rng.random() < 0.5:
                block['body'] = [{'op': 'lock', 'l': number, 'id': ids('s'), 'body': block['body']}]
                wanted = {'op': 'lock', 'l': number, 'id': ids('s'), 'body': [
                    {'op': 'wait', 'n': {'k': 'delay', 'd': 0.5}, 'id': ids('s')}]}
            else:
                block['body'] = [{'op': 'borrow', 'r': number, 'amounts': {'a': 2}, 'id': ids('s'),
                                  'body': block['body']}]
                wanted = {'op': 'borrow', 'r': number, 'amounts': {'a': 1}, 'id': ids('s'), 'body': [
                    {'op': 'wait', 'n': {'k': 'delay', 'd': 0.5}, 'id': ids('s')}]}
            roots.append({'name': 'q%d' % number, 'steps': [
                {'op': 'wait', 'n': {'k': 'delay', 'd': 0.25}, 'id': ids('s')}, wanted]})
    return {'objects': objects, 'roots': roots, 'start': rng.choice([0, 0, 0, -1, -0.5]),
            'till': None}, rng


def relevant(mechanism):
    # (a block's own cancel signal showing up anywhere else - in a later block, in another
    # activity, out of run() - is a block that failed as neither itself nor Concurrent)
    return mechanism.startswith(('c05:', 'harness', 'foreign-cancelscope',
                                 'run-ended-with-signal:CancelScope', 'kernel-revoked',
                                 'kernel-signal'))


def nontrivial(env, sess):
    for info in env.scope_inst.values():
        if info['left'] is not None and (
                info['body'] is not None or any(end[1] == 'failed' for end in info['ends'])):
            return True
    return False


def run_case(case):
    program, rng = build(case)
    enumerated_case = case['tier'] == 'thorough' and case['index'] < ENUM
    return common.explore(case, program, rng, relevant, nontrivial,
                          quick_injections=0 if enumerated_case else 3,
                          thorough_victims=0 if enumerated_case else 2,
                          double=0 if enumerated_case else 4)
