"""C16 - collect()/first() give the right results at the right time and abort the rest"""
import inspect
import random

from .. import bootstrap  # noqa: F401
from .. import inject

import usim
from usim import time, Concurrent
from usim.typing import Task

PROPERTY = 'C16'
LEVEL = 'fault_enumeration'
RULE = (
    '0-10 activities with durations from a colliding grid (ties, zero), results, failures at '
    'chosen positions (collect); collect(...) and first(..., count in {0, 1, k, n, None, n+1}); '
    'consumer behaviours {immediate, slow, break after j (with and without explicit aclose)}; '
    'un-injected run plus cancel / until-interrupt / close of the caller injected at activation '
    'boundaries (quick: sampled; thorough: every boundary x kind). Oracle: sort-by-completion '
    'model with ties resolved by the logged completion order: collect returns the results in '
    'argument order at the time of the slowest activity, or raises Concurrent of exactly the '
    'logged failures at the time of the first failure; first yields min(count, n) values in '
    'completion order at max(completion time, time the consumer asked), ValueError for '
    'count > n; after the consumer has left (normally, by break, or struck) no activity logs '
    'anything. non-trivial = >= 2 activities; distinct = activation trace'
)
RULE = RULE + (' Further scenarios: the same awaitable given several times, calls made from clean-up code of a cancelled caller (a struck caller leaves in that time step), privileged failures always end collect(), join failures in first(), falsy failures.')

LEVEL_TEXT = (
    'Fault enumeration by runtime monitoring: results, yield times and the abort of the losers '
    'are checked against a sort-by-completion model for generated activity sets and consumer '
    'behaviours, with the caller struck at every activation boundary in the thorough tier.')
TECHNIQUE = 'runtime monitoring: sort-by-completion model over the event log + containment of the losers, signal injection at activation boundaries'
ASSUMPTIONS = [
    'first() with failing activities and a consumer that suspends in its own loop body or '
    'leaves early is judged by a weaker rule: results are a prefix of the completion order at '
    'the right times, the outcome is the results or Concurrent of logged failures, and nothing '
    'of the activities runs after the consumer left',
]
REQUIRED_STATS = ['collects_judged', 'firsts_judged', 'items_checked', 'losers_checked',
                  'signals_landed']

GRID = [0, 0, 0.5, 0.5, 1, 1, 1.5, 2, 3]


def n_cases(tier):
    return 500 if tier == 'quick' else 3000


def make_case(seed, index, tier):
    rng = random.Random('%s/%s/c16' % (seed, index))
    n = rng.choice([0, 1, 2, 2, 3, 3, 4, 5, 7, 10])
    acts = []
    for number in range(n):
        acts.append({'d1': rng.choice(GRID), 'd2': rng.choice([0, 0, 0.5, 1]),
                     'value': 'v%d' % number, 'fail': False})
    how = rng.choice(['collect', 'first', 'first'])
    spec = {'how': how, 'acts': acts, 'offset': rng.choice([0, 0, 0.5])}
    spec['in_cleanup'] = index % 8 == 5
    if how == 'collect':
        for act in acts:
            if rng.random() < 0.15:
                act['fail'] = True
        if acts and rng.random() < 0.12:
            # an activity that shares the fate of another task: it fails with that task's
            # TaskCancelled - a failure that scopes do not wrap in Concurrent
            rng.choice(acts)['fail'] = 'join'
        if acts and rng.random() < 0.2:
            # arguments that are Task objects: already running in a scope of the caller's
            for act in rng.sample(acts, min(len(acts), rng.choice([1, 1, 2]))):
                if act['fail'] is False:
                    act['owned'] = True
                    if rng.random() < 0.4:
                        act['fail'] = 'cancelled'    # somebody cancels that task meanwhile
        if acts and any(act['fail'] is True for act in acts) and rng.random() < 0.5 \
                and not any(act['fail'] in ('join', 'cancelled') or act.get('owned')
                            for act in acts):
            # an activity that runs long and whose clean-up fails when it is aborted: that
            # failure is reported together with the one that caused the abort
            dirty = rng.choice(acts)
            if dirty['fail'] is False:
                dirty.update(d1=100, dirty=True)
    else:
        spec['count'] = rng.choice([0, 1, 1, 2, n, None, None, n + 1, max(0, n - 1)])
        spec['work'] = rng.choice([0, 0, 0.5, 1, 2])
        spec['brk'] = rng.choice([None, None, None, 1, 2])
        spec['aclose'] = rng.random() < 0.5
        if spec['work'] == 0 and spec['brk'] is None and rng.random() < 0.5:
            # a consumer that never suspends in its own loop body is always inside first()
            # when a failure strikes: the failure must surface as Concurrent at once
            for act in acts:
                if rng.random() < 0.3:
                    act['fail'] = True
        elif rng.random() < 0.3:
            # a failure may strike while the consumer is busy in its own loop body (D15)
            spec['lazy_failure'] = True
            for act in acts:
                if rng.random() < 0.3:
                    act['fail'] = True
            if acts and rng.random() < 0.3:
                # ... with the TaskCancelled of a task it awaits (a failure that scopes do not
                # report): the others are aborted all the same, no result comes after it
                rng.choice(acts)['fail'] = 'join'
    if spec['in_cleanup'] and any(act['fail'] in ('join', 'cancelled') or act.get('owned')
                                  for act in acts):
        spec['in_cleanup'] = False
    return {'seed': seed, 'index': index, 'tier': tier, 'scenario': spec}


class SameError(KeyError):
    """failures of the activities: all compare equal (value semantics, like a dataclass
    exception) - every failing activity is still reported"""
    def __eq__(self, other):
        return isinstance(other, SameError)

    def __hash__(self):
        return 11

    def __bool__(self):
        # ... and every third one is falsy on top (an error collection that is empty)
        return bool(self.args and sum(map(ord, str(self.args[0]))) % 3)


#: what a failing activity raises: mostly its own kind of error, now and then one of the
#: library's public exception types - as a failure of an activity they are failures like any other
FAILURE_TYPES = [SameError, SameError, SameError, usim.StreamClosed, usim.ResourcesUnavailable,
                 usim.IntervalExceeded]


class Invariant(AssertionError):
    """subclasses of the exceptions that scopes pass on as themselves, not inside Concurrent"""


class Shutdown(SystemExit):
    pass


PRIVILEGED = (Invariant, Shutdown)
#: collect() scenarios also fail with those (position 2 and 5 of every 8 activities)
COLLECT_FAILURE_TYPES = [SameError, usim.StreamClosed, Invariant, SameError,
                         usim.ResourcesUnavailable, Shutdown, SameError, usim.IntervalExceeded]


def failure_type(number, how):
    types = COLLECT_FAILURE_TYPES if how == 'collect' else FAILURE_TYPES
    return types[number % len(types)]


def failure(name, number, how='first'):
    exc = failure_type(number, how)(name)
    exc.tag = name
    return exc


class Checker:
    def __init__(self, arena, spec):
        self.arena = arena
        self.sess = arena.sess
        self.spec = spec
        self.stats = {'collects_judged': 0, 'firsts_judged': 0, 'items_checked': 0,
                      'losers_checked': 0, 'struck_runs': 0, 'value_errors': 0,
                      'collect_failures': 0}
        self.result = None
        self.started = None
        self.finished = None
        self.privileged_raised = []

    def violation(self, mechanism, msg):
        self.sess.violation('c16:' + mechanism, msg)


def build_for(case):
    spec = case['scenario']

    def build(arena):
        # (some scenarios run on a clock that starts below zero and crosses it)
        arena.start = [-1.5, -1, -0.5][case['index'] % 3] if case['index'] % 11 == 7 else 0
        checker = Checker(arena, spec)

        # (privileged failure types only where no activity fails by a cancelled task as well)
        flavour = 'collect' if spec['how'] == 'collect' and not any(
            act['fail'] in ('join', 'cancelled') for act in spec['acts']) else 'first'

        def make_act(number, act):
            async def run():
                name = 'act%d' % number
                arena.log(name, 'begin')
                try:
                    if act['d1']:
                        await (time + act['d1'])
                    else:
                        await usim.instant
                    arena.log(name, 'mid')
                    if act['fail'] == 'cancelled':
                        await usim.eternity
                    if act['d2']:
                        await (time + act['d2'])
                    if act['fail'] == 'join':
                        arena.log(name, 'raise')
                        victims[number].cancel('no longer needed')
                        return await victims[number]
                    if act['fail']:
                        arena.log(name, 'raise')
                        exc = failure(name, number, flavour)
                        if isinstance(exc, PRIVILEGED):
                            checker.privileged_raised.append((name, time.now))
                        raise exc
                    arena.log(name, 'done')
                    return act['value']
                except GeneratorExit:
                    arena.log(name, 'closed')
                    if act.get('dirty'):
                        exc = SameError(name + '!')
                        exc.tag = name + '!'
                        raise exc
                    raise
            coro = run()
            coro.__name__ = coro.__qualname__ = 'act%d' % number
            return coro

        victims = {}

        async def sleeper():
            await usim.eternity

        async def canceller(number, task, delay):
            if delay:
                await (time + delay)
            else:
                await usim.instant
            arena.log('act%d' % number, 'raise')
            task.cancel('no longer needed')

        async def consumer():
            if any(act['fail'] == 'join' or act.get('owned') for act in spec['acts']):
                async with usim.Scope() as outer:
                    for number, act in enumerate(spec['acts']):
                        if act['fail'] == 'join':
                            victims[number] = outer.do(sleeper(), volatile=True)
                    await consumer_body(outer)
            else:
                await consumer_body(None)

        async def consumer_body(outer):
            if spec.get('in_cleanup'):
                # the call is made from clean-up code: the caller has been cancelled (at 0.5)
                # and calls collect() / first() on its way out - where it can be struck again
                try:
                    await (time + 1000)
                except GeneratorExit:
                    raise               # (closed, not cancelled: no awaiting on the way out)
                except BaseException:
                    await consumer_call(outer)
                    raise
            else:
                await consumer_call(outer)

        async def first_cancel():
            await (time + 0.5)
            arena.strike('cancel', 'consumer')

        async def consumer_call(outer):
            if spec['offset']:
                await (time + spec['offset'])
            acts = []
            for number, act in enumerate(spec['acts']):
                if act.get('owned'):
                    task = outer.do(make_act(number, act))
                    acts.append(task)
                    checker.stats['task_arguments'] = checker.stats.get('task_arguments', 0) + 1
                    if act['fail'] == 'cancelled':
                        victims[number] = task
                        outer.do(canceller(number, task, act['d1'] + act['d2']), volatile=True)
                else:
                    acts.append(make_act(number, act))
            checker.started = time.now
            checker.call_n = arena.sess.n
            arena.log('consumer', 'call')
            try:
                if spec['how'] == 'collect':
                    try:
                        checker.result = ('ok', await usim.collect(*acts), time.now)
                    except Concurrent as exc:
                        checker.result = ('concurrent', [getattr(child, 'tag', None) or str(child.args[0]) for child
                                                         in exc.children], time.now)
                    except PRIVILEGED as exc:
                        checker.result = ('privileged', [exc.tag], time.now)
                    except usim.TaskCancelled as exc:
                        checker.result = ('taskcancelled', [exc.subject is task for task
                                                            in victims.values()], time.now)
                    except usim.TaskClosed as exc:
                        # not a failure of any activity: the by-product of aborting a bystander
                        checker.result = ('taskclosed', [], time.now)
                else:
                    items = []
                    arena.log('consumer', 'ask')
                    # The generator is referenced from a box that is emptied on every way out:
                    # a plain local would survive in the frame object kept alive by earlier
                    # wake-up tracebacks, and CPython 3.12 does not finalise a generator whose
                    # consumer is closed inside __anext__ (known finding D16, see C03).
                    box = [usim.first(*acts, count=spec['count'])]
                    try:
                        async for value in box[0]:
                            items.append((value, time.now))
                            arena.log('consumer', 'item', value)
                            if spec['brk'] is not None and len(items) >= spec['brk']:
                                if spec['aclose']:
                                    await box[0].aclose()
                                break
                            if spec['work']:
                                await (time + spec['work'])
                            arena.log('consumer', 'ask')
                        checker.result = ('items', items, time.now)
                    except ValueError:
                        checker.result = ('ValueError', items, time.now)
                    except Concurrent as exc:
                        checker.result = ('first-concurrent', items, time.now,
                                          [getattr(child, 'tag', None) or str(child.args[0]) for child in exc.children])
                    finally:
                        box.clear()
            finally:
                checker.finished = len(arena.sess.events)
                arena.log('consumer', 'left')
                for act in acts:
                    # (only what never got to run is discarded here; a started activity is the
                    # library's to stop - closing it from here would hide that it was not)
                    if not isinstance(act, Task) \
                            and inspect.getcoroutinestate(act) == inspect.CORO_CREATED:
                        act.close()
        background = [first_cancel()] if spec.get('in_cleanup') else []
        # a privileged failure of an activity ends the call whatever strikes the caller in that
        # time step: it takes the place of the signal, the caller handles it - and lives on
        arena.excuse = lambda kind, name, when: any(
            raised_at == when for _, raised_at in checker.privileged_raised)
        if spec.get('in_cleanup'):
            # its clean-up takes virtual time by design (the rule about second strikes is
            # `c16:caller-struck-but-call-goes-on`)
            arena.slow_leavers.add('consumer')
        return [('consumer', consumer)], background, checker
    return build


def completions(sess, spec, started):
    """logged completion order of the activities: [(number, time, failed)]"""
    order = []
    for event in sess.events:
        if len(event) >= 3 and str(event[1]).startswith('act') and event[2] in ('done', 'raise'):
            order.append((int(event[1][3:]), event[0], event[2] == 'raise'))
    return order


def check(sess, arena, checker, outcome, plan):
    found = inject.kernel_violations(sess, outcome)
    spec = checker.spec
    acts = spec['acts']
    n = len(acts)
    struck = bool(arena.struck)
    if struck:
        checker.stats['struck_runs'] += 1
    # ---- a caller that is struck inside the call leaves it (and the activities are aborted)
    # in that very time step ----
    call_n = getattr(checker, 'call_n', None)
    if call_n is not None:
        left = [event[0] for event in sess.events if event[1] == 'consumer' and event[2] == 'left']
        for boundary, kind, name, when in arena.struck:
            # (cancellations only: the arena's until-interrupt has no effect a second time)
            if name == 'consumer' and kind == 'cancel' and boundary > call_n and (
                    not left or left[0] > when):
                checker.violation('caller-struck-but-call-goes-on',
                                  'the caller was struck (%s) at %r inside %s; it left the call '
                                  'at %s' % (kind, when, spec['how'], left[0] if left else 'no time'))
                break
    # ---- a failure of a privileged type (SystemExit / AssertionError subclasses) is what the
    # call ends with, whatever else strikes the caller in that time step ----
    if checker.privileged_raised and spec['how'] == 'collect' and checker.finished is not None \
            and not spec.get('in_cleanup'):
        checker.stats['privileged_failures_followed'] = checker.stats.get(
            'privileged_failures_followed', 0) + 1
        if checker.result is None or checker.result[0] != 'privileged':
            checker.violation('collect-failure-not-raised',
                              'activity %s failed with a privileged exception at %r but '
                              'collect() ended with %r (caller struck: %s)' % (
                                  checker.privileged_raised[0][0], checker.privileged_raised[0][1],
                                  checker.result, [s[1:] for s in arena.struck]))
    # ---- nothing of the activities happens after the consumer has left ----
    owned = {'act%d' % number for number, act in enumerate(acts) if act.get('owned')}
    if checker.finished is not None:
        for event in sess.events[checker.finished:]:
            if str(event[1]).startswith('act') and event[2] != 'closed' \
                    and event[1] not in owned:
                checker.violation('activity-after-consumer-left',
                                  '%s logged %r at %r after the caller had left' % (
                                      event[1], event[2], event[0]))
                break
        checker.stats['losers_checked'] += n
    elif checker.started is not None and outcome[0] == 'ok' and not struck:
        checker.violation('consumer-never-finished', 'the caller never returned')
    result = checker.result
    if result is not None and checker.started is not None:
        t0 = checker.started
        order = completions(sess, spec, t0)
        if spec['how'] == 'collect':
            checker.stats['collects_judged'] += 1
            failing = [number for number, act in enumerate(acts) if act['fail']]
            joins = [number for number in failing
                     if acts[number]['fail'] in ('join', 'cancelled')]
            if joins:
                checker.stats['collect_join_failures'] = checker.stats.get(
                    'collect_join_failures', 0) + 1
                first_fail = min(acts[i]['d1'] + acts[i]['d2'] for i in failing) + t0
                first_join = min(acts[i]['d1'] + acts[i]['d2'] for i in joins) + t0
                plain = [acts[i]['d1'] + acts[i]['d2'] + t0 for i in failing if i not in joins]
                if result[0] == 'taskclosed':
                    checker.violation('collect-raised-closing-of-bystander',
                                      'an activity fails with the TaskCancelled of a task it '
                                      'awaits; collect raised the TaskClosed of another '
                                      'activity that was aborted because of that, not the '
                                      'failure')
                elif result[0] not in ('concurrent', 'taskcancelled'):
                    checker.violation('collect-failure-not-raised',
                                      'activities %s fail (%s by the TaskCancelled of a task '
                                      'they await) but collect returned %r' % (
                                          failing, joins, result[1]))
                else:
                    if not plain or first_join < min(plain):
                        if result[0] != 'taskcancelled' or not any(result[1]):
                            checker.violation('collect-wrong-failures',
                                              'the first failure is the TaskCancelled of an '
                                              'awaited task, collect raised %r' % (result[:2],))
                    elif min(plain) < first_join and result[0] != 'concurrent':
                        checker.violation('collect-wrong-failures',
                                          'the first failure is a KeyError, collect raised %r'
                                          % (result[:2],))
                    if result[2] != first_fail:
                        checker.violation('collect-failure-time',
                                          'collect failed at %r, first failure at %r' % (
                                              result[2], first_fail))
                    late = [ev for ev in sess.events
                            if str(ev[1]).startswith('act') and ev[0] > first_fail
                            and ev[1] not in owned]
                    if late:
                        checker.violation('collect-others-not-aborted',
                                          'event %r after the failure at %r' % (late[0], first_fail))
            elif failing:
                checker.stats['collect_failures'] += 1
                first_fail = min(acts[i]['d1'] + acts[i]['d2'] for i in failing) + t0
                want = ['act%d' % number for number, when, failed in order if failed]
                # (plus the clean-up failures of the activities that were aborted because of it)
                want += ['act%d!' % number for number, act in enumerate(acts)
                         if act.get('dirty')]
                fatal = [name for name in want if '!' not in name
                         and issubclass(failure_type(int(name[3:]), 'collect'), PRIVILEGED)]
                assert not joins
                if fatal:
                    # AssertionError / SystemExit / KeyboardInterrupt (and their subclasses) of
                    # an activity are passed on as themselves: the first of them
                    checker.stats['collect_privileged_failures'] = checker.stats.get(
                        'collect_privileged_failures', 0) + 1
                    if result[0] != 'privileged' or result[1] != fatal[:1]:
                        checker.violation('collect-wrong-failures',
                                          'activities %s fail, %s with a subclass of '
                                          'AssertionError / SystemExit: collect raised %r' % (
                                              want, fatal, result[:2]))
                    elif result[2] != first_fail:
                        checker.violation('collect-failure-time',
                                          'collect failed at %r, first failure at %r' % (
                                              result[2], first_fail))
                elif result[0] != 'concurrent':
                    checker.violation('collect-failure-not-raised',
                                      'activities %s fail but collect returned %r' % (
                                          failing, result[1]))
                else:
                    if sorted(result[1]) != sorted(want) or [n for n in result[1] if '!' not in n] \
                            != [n for n in want if '!' not in n]:
                        checker.violation('collect-wrong-failures',
                                          'collect raised Concurrent of %s, logged failures %s'
                                          % (result[1], want))
                    if result[2] != first_fail:
                        checker.violation('collect-failure-time',
                                          'collect failed at %r, first failure at %r' % (
                                              result[2], first_fail))
                    late = [ev for ev in sess.events
                            if str(ev[1]).startswith('act') and ev[0] > first_fail
                            and ev[1] not in owned]
                    if late:
                        checker.violation('collect-others-not-aborted',
                                          'event %r after the failure at %r' % (late[0], first_fail))
            else:
                want_values = [act['value'] for act in acts]
                want_time = t0 + max([act['d1'] + act['d2'] for act in acts] or [0])
                if result[0] != 'ok' or result[1] != want_values:
                    checker.violation('collect-wrong-result', 'collect returned %r, expected %r'
                                      % (result[1], want_values))
                elif result[2] != want_time:
                    checker.violation('collect-wrong-time', 'collect returned at %r, the slowest '
                                      'activity finishes at %r' % (result[2], want_time))
        else:
            checker.stats['firsts_judged'] += 1
            count = spec['count'] if spec['count'] is not None else n
            if count > n:
                checker.stats['value_errors'] += 1
                if result[0] != 'ValueError':
                    checker.violation('first-no-valueerror', 'count %d > %d activities but no '
                                      'ValueError (%r)' % (count, n, result[:2]))
            elif any(act['fail'] for act in acts) and spec.get('lazy_failure'):
                judge_lazy_failing_first(checker, sess, spec, result, order, t0, count, struck)
            elif any(act['fail'] for act in acts):
                judge_failing_first(checker, sess, spec, result, order, t0, count)
            elif result[0] != 'items':
                checker.violation('first-unexpected-valueerror', 'ValueError for count %r of %d'
                                  % (spec['count'], n))
            else:
                items = result[1]
                limit = count if spec['brk'] is None else min(count, spec['brk'])
                if len(items) != limit:
                    checker.violation('first-wrong-number', 'first(count=%r) of %d activities '
                                      'yielded %d values, expected %d' % (
                                          spec['count'], n, len(items), limit))
                if items and len(items) == limit and not struck:
                    # the iteration stops right after the last result (plus the consumer's own
                    # work before it asks again) and the losers are aborted at that moment
                    stop = items[-1][1] + (spec['work'] if spec['brk'] is None
                                           or limit < spec['brk'] else 0)
                    if result[2] != stop:
                        checker.violation('first-ended-late', 'iteration over first(count=%r) '
                                          'ended at %r, last of %d results at %r' % (
                                              spec['count'], result[2], limit, items[-1][1]))
                    late = [ev for ev in sess.events
                            if str(ev[1]).startswith('act') and ev[0] > stop
                            and ev[2] != 'closed']
                    if late:
                        checker.violation('first-losers-not-aborted',
                                          'activity event %r after the iteration ended at %r'
                                          % (late[0], stop))
                asks = [ev[0] for ev in sess.events if ev[1] == 'consumer' and ev[2] == 'ask']
                done_order = [(acts[number]['value'], when) for number, when, failed in order]
                for position, (value, when) in enumerate(items):
                    checker.stats['items_checked'] += 1
                    if position >= len(done_order):
                        checker.violation('first-invented', 'value %r was yielded but only %d '
                                          'activities completed' % (value, len(done_order)))
                        break
                    want_value, completed = done_order[position]
                    if value != want_value:
                        checker.violation('first-wrong-order', 'item %d is %r, the %d. activity '
                                          'to complete returned %r (completions %s)' % (
                                              position, value, position + 1, want_value,
                                              done_order))
                    asked = asks[position] if position < len(asks) else completed
                    want_time = max(completed, asked)
                    if when != want_time:
                        checker.violation('first-wrong-time', 'item %d (%r) yielded at %r, '
                                          'completed at %r, asked for at %r' % (
                                              position, value, when, completed, asked))
    if owned and outcome[0] == 'ok' and not struck and checker.finished is not None:
        # a task that was merely handed to collect() belongs to its own scope: whatever happens
        # to the collect, it is not closed and runs to its end (unless it was cancelled)
        for number, act in enumerate(acts):
            if act.get('owned') and act['fail'] is False:
                name = 'act%d' % number
                logged = [ev[2] for ev in sess.events if ev[1] == name]
                checker.stats['task_arguments_followed'] = checker.stats.get(
                    'task_arguments_followed', 0) + 1
                if 'closed' in logged or 'done' not in logged:
                    checker.violation('task-argument-closed',
                                      'task %s handed to collect() logged %s: it was closed '
                                      'together with the collect' % (name, logged))
    found += [dict(v) for v in sess.violations if v['mechanism'].startswith('c16:')]
    return found


def judge_lazy_failing_first(checker, sess, spec, result, order, t0, count, struck):
    """first() with failing activities and a consumer that is busy outside the generator"""
    acts = spec['acts']
    checker.stats['lazy_first_failures'] = checker.stats.get('lazy_first_failures', 0) + 1
    if result[0] not in ('items', 'first-concurrent'):
        checker.violation('first-unexpected-valueerror', 'ValueError for count %r of %d'
                          % (spec['count'], len(acts)))
        return
    items = result[1]
    limit = count if spec['brk'] is None else min(count, spec['brk'])
    if len(items) > limit:
        checker.violation('first-wrong-number', 'first(count=%r) yielded %d values, at most %d '
                          'expected' % (spec['count'], len(items), limit))
    asks = [ev[0] for ev in sess.events if ev[1] == 'consumer' and ev[2] == 'ask']
    good = [(acts[number]['value'], when) for number, when, failed in order if not failed]
    failures = [(number, when) for number, when, failed in order if failed]
    for position, (value, when) in enumerate(items):
        checker.stats['items_checked'] += 1
        if position >= len(good):
            checker.violation('first-invented', 'value %r was yielded but only %d activities '
                              'completed' % (value, len(good)))
            break
        want_value, completed = good[position]
        if value != want_value:
            checker.violation('first-wrong-order', 'item %d is %r, the %d. activity to complete '
                              'returned %r' % (position, value, position + 1, want_value))
        asked = asks[position] if position < len(asks) else completed
        if when != max(completed, asked):
            checker.violation('first-wrong-time', 'item %d (%r) yielded at %r, completed at %r, '
                              'asked for at %r' % (position, value, when, completed, asked))
        if any(failed_at < when for _, failed_at in failures):
            checker.violation('first-result-after-failure', 'item %d (%r) was yielded at %r '
                              'although an activity had failed at %r' % (
                                  position, value, when, min(w for _, w in failures)))
    if result[0] == 'first-concurrent':
        logged = ['act%d' % number for number, _ in failures
                  if acts[number]['fail'] != 'join']
        if not result[3] or any(name not in logged for name in result[3]):
            checker.violation('first-wrong-failures', 'Concurrent of %s, logged failures %s' % (
                result[3], logged))
        elif failures:
            # reported when the consumer is inside first(): at the failure or the next ask
            first_fail = min(when for _, when in failures)
            later_asks = [ask for ask in asks[len(items):] if ask >= first_fail]
            allowed = {first_fail} | set(asks[len(items):len(items) + 1]) | set(later_asks[:1])
            if result[2] not in allowed and not struck:
                checker.violation('first-failure-time', 'first() failed at %r; the activity '
                                  'failed at %r, the consumer asked at %s' % (
                                      result[2], first_fail, asks))
    elif failures and not struck and len(items) < limit and not all(
            acts[number]['fail'] == 'join' for number, _ in failures):
        # (an activity that ended with the TaskCancelled of a task it awaited is nothing a scope
        # reports: the iteration ends early - quietly - but ends it does)
        checker.violation('first-failure-not-raised', 'activities failed at %s but first() ended '
                          'normally with %d of %d results' % (
                              [w for _, w in failures], len(items), limit))


def judge_failing_first(checker, sess, spec, result, order, t0, count):
    """first() with failing activities and a consumer that never leaves the generator"""
    acts = spec['acts']
    failing = [t0 + act['d1'] + act['d2'] for act in acts if act['fail']]
    first_fail = min(failing)
    before = [(acts[number]['value'], when) for number, when, failed in order
              if not failed and when < first_fail]
    checker.stats['first_failures'] = checker.stats.get('first_failures', 0) + 1
    if len(before) >= count:
        if result[0] != 'items' or [value for value, _ in result[1]] != \
                [value for value, _ in before[:count]]:
            checker.violation('first-wrong-result-before-failure',
                              'first(count=%r): %d results complete before the first failure at '
                              '%r, got %r' % (spec['count'], len(before), first_fail, result[:2]))
        return
    if result[0] != 'first-concurrent':
        checker.violation('first-failure-not-raised',
                          'an activity fails at %r before %r results are available, but first() '
                          'ended with %r' % (first_fail, count, result[:2]))
        return
    if result[2] != first_fail:
        checker.violation('first-failure-time', 'first() failed at %r, the activity failed at %r'
                          % (result[2], first_fail))
    raised = ['act%d' % number for number, when, failed in order if failed]
    if result[3] != raised:
        checker.violation('first-wrong-failures', 'Concurrent of %s, logged failures %s' % (
            result[3], raised))
    got = [value for value, _ in result[1]]
    must = [value for value, _ in before]
    if got[:len(must)] != must:
        checker.violation('first-wrong-result-before-failure',
                          'results before the failure: %s, yielded %s' % (must, got))
    late = [ev for ev in sess.events if str(ev[1]).startswith('act') and ev[0] > first_fail
            and ev[2] != 'closed']
    if late:
        checker.violation('first-losers-not-aborted', 'event %r after the failure at %r' % (
            late[0], first_fail))


def same_awaitable_twice(case):
    """activities need not be coroutines: any awaitable will do, and the same re-usable
    awaitable object (a queue, a ticket dispenser of the program's own) may be given several
    times - every occurrence is an activity of its own with a result of its own"""
    from usim import Queue, Scope
    from ..probe import Session
    rng = random.Random('%s/%s/c16-same' % (case['seed'], case['index']))
    n = rng.randint(2, 4)
    how = rng.choice(['collect-queue', 'collect-ticket', 'first-ticket', 'first-queue',
                      'collect-mixed'])
    log = []

    class Ticket:
        def __init__(self):
            self.issued = 0

        def __await__(self):
            self.issued += 1
            mine = self.issued
            yield from (time + mine).__await__()
            return 'ticket-%d' % mine

    async def sleeper(value, delay):
        await (time + delay)
        return value

    async def main():
        queue, ticket = Queue(), Ticket()
        for number in range(n):
            await queue.put('item-%d' % number)
        base = time.now
        if how == 'collect-queue':
            log.append(('collected', await usim.collect(*[queue] * n), time.now - base))
        elif how == 'collect-ticket':
            log.append(('collected', await usim.collect(*[ticket] * n), time.now - base))
        elif how == 'collect-mixed':
            log.append(('collected', await usim.collect(ticket, queue, ticket, queue),
                        time.now - base))
        else:
            source = ticket if how == 'first-ticket' else queue
            async for result in usim.first(*[source] * n, count=n):
                log.append(('first', result, time.now - base))

    sess = Session()
    outcome = sess.run(main())
    if how == 'collect-queue':
        want = [('collected', ['item-%d' % number for number in range(n)], 0)]
    elif how == 'collect-ticket':
        want = [('collected', ['ticket-%d' % (number + 1) for number in range(n)], n)]
    elif how == 'collect-mixed':
        want = [('collected', ['ticket-1', 'item-0', 'ticket-2', 'item-1'], 2)]
    elif how == 'first-ticket':
        want = [('first', 'ticket-%d' % (number + 1), number + 1) for number in range(n)]
    else:
        want = [('first', 'item-%d' % number, 0) for number in range(n)]
    violations = [dict(v) for v in sess.violations if v['mechanism'].startswith('kernel-')]
    if outcome[0] != 'ok':
        violations.append({'mechanism': 'c16:run-failed',
                           'msg': '%s with the same awaitable object given %d times: run() '
                                  'ended with %r' % (how, n, outcome[1])})
    elif log != want:
        violations.append({'mechanism': 'c16:collect-results' if how.startswith('collect')
                           else 'c16:first-results',
                           'msg': '%s with the same awaitable object given %d times: got %s, '
                                  'expected %s' % (how, n, log, want)})
    for vio in violations:
        vio['case'] = dict(case)
    return {'evals': 1, 'sigs': [sess.signature()], 'violations': violations, 'sample': None,
            'stats': {'same_awaitable_given_several_times': 1, 'activations': sess.n}}


def run_case(case):
    if case['index'] % 25 == 11 and case.get('plan') is None:
        return same_awaitable_twice(case)
    rng = random.Random('%s/%s/c16-inj' % (case['seed'], case['index']))
    return inject.explore(case, build_for(case), rng, check, case['tier'],
                          quick_samples=8, max_plans=300)
