"""C01 - virtual time is monotone and every timed wait resumes at exactly its date"""
import gc
import json
import random

from .. import bootstrap  # noqa: F401
from ..models.clock import ClockModel
from ..prog import execute
from ..probe import Session

PROPERTY = 'C01'
LEVEL = 'exploration'
RULE = (
    'random programs of 1-8 concurrent activities (4%: plus a crowd of 70-300 sleepers with pairwise distinct dates) built from timed waits (delay, ==, >=, <, '
    'instant, eternity), nested Scope/until blocks with time notifications (date conditions and `time + d` objects also as one object shared by several waits and blocks) and children started '
    'now/after d/at t; dates from a colliding dyadic grid (a quarter of the programs: inexact decimal fractions instead) incl. zero, past, equal and infinite '
    'dates; start times {-5,0,0.5,7,1e6,2**53,1e17} (the last two make small delays vanish in float rounding); every logged resume time is compared with the '
    'arithmetic clock model and kernel clock/due-time monitors run on every activation; '
    'non-trivial = >= 2 activities and >= 3 distinct virtual times; distinct = activation trace'
)
RULE = RULE + (' Further families: programs re-run with the date-condition objects of an earlier (completed, or aborted) simulation; simulations made right after an aborted one; infinite relative delays; exact Decimal / Fraction time; environments of the SimPy-style layer embedded with an initial time ahead (timeouts, agenda entries, a pacemaker made early).')

LEVEL_TEXT = (
    'Exploration by runtime monitoring: resume times logged by the real code are compared with '
    'an independent arithmetic clock model (usimmon/models/clock.py) on thousands of generated '
    'programs, in both wait-queue back ends and with -O; kernel monitors (clock monotone, every '
    'activation at its due date, nothing left unrun when the clock moves on or run() returns) '
    'are evaluated on every activation. Held = no divergence observed.')
TECHNIQUE = 'runtime monitoring: logged resume times vs arithmetic clock model + kernel due-time/monotonicity monitors'
ASSUMPTIONS = [
    'three quarters of the programs use dyadic dates and delays (exact in binary floating '
    'point, many ties), one quarter decimal fractions (inexact, few ties)',
    'ties between a wait and the trigger of an enclosing block at the same virtual time are '
    'accepted either way (order inside a time step is C02)',
]
REQUIRED_STATS = ['waits_checked', 'due_checked', 'activations']

GRID = [0, 0, 0.125, 0.25, 0.5, 0.5, 1, 1, 1.5, 2, 2, 3, 5]
DATES = [-1, 0, 0, 0.5, 1, 1, 1.5, 2, 2, 2.5, 3, 4, 5, 8]
# (2 ** 53 and 2 ** 60 as *integers*: with integer delays the dates stay exact, beyond float)
STARTS = [0, 0, 0, -5, 0.5, 7, 1e6, 2.0 ** 53, 1e17, 2 ** 53, 2 ** 60]
# decimal fractions are inexact in binary floating point: now + (t - now) is not always t, and
# a + b + c depends on the order - a date must still be met exactly and a delay is one addition
DEC_GRID = [0, 0.1, 0.2, 0.3, 0.3, 0.7, 0.8, 0.9, 1.1, 1.2, 2.3, 1e16 + 2]
DEC_DATES = [-0.1, 0, 0.1, 0.3, 0.7, 0.9, 1.1, 1.7, 2.3, 2.9, 3.3, 3.4, 3.9, 1e16 + 2]
DEC_STARTS = [0, 0, 0.2, 3, 0.1, -0.3]


def n_cases(tier):
    return 6000 if tier == 'quick' else 120000


def make_case(seed, index, tier):
    return {'seed': seed, 'index': index}


class TimingGen:
    def __init__(self, rng):
        self.rng = rng
        self.count = 0
        self.shared = []
        self.pauses = []
        self.decimal = rng.random() < 0.25
        self.grid = DEC_GRID if self.decimal else GRID
        self.dates = DEC_DATES if self.decimal else DATES
        self.start = rng.choice(DEC_STARTS if self.decimal else STARTS)
        if isinstance(self.start, int) and self.start >= 2 ** 53:
            # an exact integer clock beyond float precision only goes with integer delays and
            # dates: `clock + 0.125` is not representable - it rounds to *less* than the clock,
            # so "resumes at exactly clock + d" and "the clock never decreases" contradict each
            # other for such a wait (outside the domain of the statement, see DESIGN 11.3)
            self.grid = [0, 0, 1, 1, 2, 2, 3, 5]
            self.dates = [-1, 0, 0, 1, 1, 2, 2, 3, 4, 5, 8]

    def ident(self, prefix):
        self.count += 1
        return '%s%d' % (prefix, self.count)

    def date(self):
        return self.start + self.rng.choice(self.dates)

    def notif(self, for_block=False):
        rng = self.rng
        roll = rng.random()
        if roll < 0.45:
            if rng.random() < 0.03:
                # an infinite *relative* delay elapses when the clock reaches infinity
                return {'k': 'delay', 'd': float('inf')}
            if rng.random() < 0.2:
                # one `time + d` *object* (pause = time + 10) used by several waits and blocks
                # that begin at different times and overlap: each of them takes d
                if len(self.pauses) < 2 and (not self.pauses or rng.random() < 0.4):
                    self.pauses.append({'k': 'delay', 'd': rng.choice(
                        [d for d in self.grid if d > 0]), 'share': 'p%d' % len(self.pauses)})
                return dict(rng.choice(self.pauses))
            delay = rng.choice(self.grid)
            return {'k': 'delay', 'd': delay} if delay > 0 else {'k': 'instant'}
        if roll < 0.75 and rng.random() < 0.3:
            # one date-condition *object* used by several waits and blocks of the program -
            # some of them abandoned before the date, others waiting on
            if len(self.shared) < 3 and (not self.shared or rng.random() < 0.4):
                self.shared.append({'k': rng.choice(['ge', 'ge', 'eq']), 't': self.date(),
                                    'share': 'n%d' % len(self.shared)})
            return dict(rng.choice(self.shared))
        if roll < 0.6:
            return {'k': 'ge', 't': self.date()}
        if roll < 0.75:
            return {'k': 'eq', 't': self.date()}
        if roll < 0.83:
            return {'k': 'lt', 't': self.date()}
        if roll < 0.9:
            return {'k': 'instant'}
        if roll < 0.95 or not for_block:
            return {'k': 'eternity'} if for_block or rng.random() < 0.3 else {'k': 'instant'}
        return {'k': 'ge', 't': float('inf')}

    def steps(self, depth, n=None):
        rng = self.rng
        n = rng.randint(1, 5) if n is None else n
        result = []
        for _ in range(n):
            if rng.random() < 0.02:
                # a complete simulation (with simulations nested in it) run from inside this one
                result.append({'op': 'nested', 'd': 1, 'start': rng.choice([0, 100]),
                               'levels': rng.choice([1, 2, 3]), 'id': self.ident('n')})
            elif depth < 3 and rng.random() < 0.3:
                result.append(self.block(depth))
            else:
                result.append({'op': 'wait', 'n': self.notif(), 'id': self.ident('w')})
        return result

    def block(self, depth):
        rng = self.rng
        step = {'op': 'scope', 'id': self.ident('b'),
                'n': self.notif(for_block=True) if rng.random() < 0.75 else None,
                'children': [], 'catch': False}
        for _ in range(rng.choice([0, 0, 1, 1, 2, 3])):
            child = {'name': self.ident('t'), 'volatile': rng.random() < 0.3,
                     'steps': self.steps(depth + 1, rng.randint(0, 3))}
            roll = rng.random()
            if roll < 0.3:
                child['after'] = rng.choice(self.grid) if rng.random() < 0.96 else float('inf')
            elif roll < 0.55:
                child['at'] = self.date()
            step['children'].append(child)
        step['body'] = self.steps(depth + 1, rng.randint(0, 3))
        return step

    def program(self):
        rng = self.rng
        roots = [{'name': 'r%d' % index, 'steps': self.steps(0)}
                 for index in range(rng.randint(1, 8))]
        exact_integers = isinstance(self.start, int) and self.start >= 2 ** 53
        if rng.random() < 0.04:
            # a crowd: hundreds of distinct dates pending at the same moment, drained slowly
            order = list(range(rng.choice([70, 130, 300])))
            rng.shuffle(order)
            for index in order:
                unit = 1 if exact_integers else 0.125
                steps = [{'op': 'wait', 'n': {'k': 'delay', 'd': unit * (index + 1)},
                          'id': self.ident('w')}]
                if index % 3 == 0:
                    steps.append({'op': 'wait', 'n': {'k': 'ge', 't': self.start + 400 - index
                                                      * unit}, 'id': self.ident('w')})
                roots.append({'name': 'crowd%d' % index, 'steps': steps})
        return {'objects': {}, 'roots': roots, 'start': self.start, 'till': None}


def build(case):
    rng = random.Random('%s/%s/c01' % (case['seed'], case['index']))
    return TimingGen(rng).program()


def aborted_then_resumed(case):
    """date conditions whose first simulation is aborted by a failure before the dates (every
    wait for them unwound by it) are waited for in the next simulation - which is made right
    after the first one is let go of, several times in a row: whatever a condition remembers of
    a loop that is gone must not be mistaken for the new one"""
    rng = random.Random('%s/%s/c01-aborted' % (case['seed'], case['index']))
    start = rng.choice([0, 0, 3, 0.5])
    shared = [{'k': rng.choice(['ge', 'ge', 'eq']), 't': start + rng.choice([4, 6, 10]),
               'share': 'n%d' % number} for number in range(rng.randint(1, 2))]
    body = [{'op': 'wait', 'n': {'k': 'delay', 'd': rng.choice([1, 2, 3])}, 'id': 'a1'},
            {'op': 'raise', 'kind': 'err', 'tag': 'abort', 'id': 'a2'}]
    for depth, spec in enumerate(shared):
        body = [{'op': 'scope', 'id': 'ab%d' % depth, 'n': dict(spec), 'children': [],
                 'catch': False, 'body': body}]
    first = {'objects': {}, 'roots': [{'name': 'r0', 'steps': body}], 'start': start,
             'till': None}
    roots = []
    for number in range(rng.randint(1, 3)):
        roots.append({'name': 'w%d' % number, 'steps': [
            {'op': 'wait', 'n': dict(rng.choice(shared)), 'id': 'w%d' % number},
            {'op': 'wait', 'n': {'k': 'delay', 'd': 1}, 'id': 'x%d' % number}]})
    second = {'objects': {}, 'roots': roots, 'start': rng.choice([start, start, 0]),
              'till': None}
    result = None
    for round_ in range(4):
        sess = Session()
        env, outcome = execute(first, sess, None)
        used = dict(env.shared)
        holder = [env, sess, outcome]
        del env, sess, outcome
        again = run_once(dict(case, round=round_), second, used, holder)
        again.pop('shared')
        for vio in again['violations']:
            vio['msg'] = ('simulation after one that was aborted by a failure before the dates '
                          'of its conditions: ' + vio['msg'])
            vio['case'] = dict(case)
        if result is None:
            result = again
        else:
            result['evals'] += 1
            result['stats']['waits_checked'] += again['stats']['waits_checked']
            result['violations'] += again['violations']
        if result['violations']:
            break
    result['stats']['runs_after_aborted_simulation'] = round_ + 1
    return result


def embedded_clock(case):
    """the SimPy-style layer keeps the same time: an environment embedded in a native simulation
    begins at its initial time (the native clock may be younger), its timeouts end exactly their
    delay later on both clocks, native waits made meanwhile resume at their dates"""
    import usim
    import usim.py as usimpy
    from usim import time, Scope
    rng = random.Random('%s/%s/c01-env' % (case['seed'], case['index']))
    start = rng.choice([0, 0, 2, -1])
    initial = start + rng.choice([0, 0, 1.5, 4])
    enter_after = rng.choice([0, 0, 0.5, 1])
    delays = [rng.choice([0.5, 1, 2.25]) for _ in range(rng.randint(1, 3))]
    log = []
    env = usimpy.Environment(initial)

    def process(env, number, early):
        log.append(('process begins', number, env.now, time.now))
        for delay in delays:
            yield env.timeout(delay + number)
            log.append(('timeout over', number, env.now, time.now))

    n_early = rng.randint(0, 2)
    for number in range(n_early):
        env.process(process(env, number, True))
    # work put on the environment's agenda before it has begun: due its delay after the beginning
    agenda = [rng.choice([0, 0.5, 2, 3.25]) for _ in range(rng.randint(0, 2))]

    async def scheduled(number, delay):
        log.append(('scheduled work', number, delay, env.now, time.now))

    for number, delay in enumerate(agenda):
        env.schedule(scheduled(number, delay), delay=delay)

    async def native(number):
        await (time + (number + 0.25))
        log.append(('native', number, time.now))

    async def paced():
        # a pacemaker made now and first used later keeps time from its first use
        box = [usim.interval(2).__aiter__()]
        try:
            await (time + 0.75)
            for _ in range(3):
                log.append(('paced', await box[0].__anext__()))
            await box[0].aclose()
        finally:
            box.clear()

    async def main():
        async with Scope() as scope:
            for number in range(2):
                scope.do(native(number))
            scope.do(paced())
            await (time + enter_after)
            async with env:
                log.append(('entered', env.now, time.now))
                for number in range(n_early, n_early + rng.randint(0, 2)):
                    env.process(process(env, number, False))
                await (time + 12)

    sess = Session()
    outcome = sess.run(main(), start=start)
    violations = [dict(v) for v in sess.violations if v['mechanism'].startswith('kernel-')]
    begin = max(initial, start + enter_after)
    want = {('entered', begin, begin)}
    n_processes = len({entry[1] for entry in log if entry[0] == 'process begins'})
    for number in range(n_processes):
        want.add(('process begins', number, begin, begin))
        now = begin
        for delay in delays:
            now = now + (delay + number)
            want.add(('timeout over', number, now, now))
    for number, delay in enumerate(agenda):
        want.add(('scheduled work', number, delay, begin + delay, begin + delay))
    for number in range(2):
        want.add(('native', number, start + number + 0.25))
    for number in range(3):
        want.add(('paced', start + 0.75 + 2 * (number + 1)))
    what = 'environment(initial_time=%r) entered at %r in a simulation started at %r' % (
        initial, start + enter_after, start)
    if outcome[0] != 'ok':
        violations.append({'mechanism': 'run-failed', 'msg': '%s: %r' % (what, outcome[1])})
    elif set(log) != want:
        odd = sorted(set(log) ^ want, key=repr)
        violations.append({'mechanism': 'wrong-resume-time',
                           'msg': '%s: entries that are logged but not expected, or expected but '
                                  'not logged: %s' % (what, odd[:6])})
    for vio in violations:
        vio['case'] = dict(case)
    return {'evals': 1, 'sigs': [sess.signature()], 'violations': violations, 'sample': None,
            'stats': {'embedded_environments': 1, 'waits_checked': len(log),
                      'activations': sess.n}}


def exact_program(program, index):
    """the same program on exact time: every delay, date and the start a Decimal / a Fraction"""
    import decimal
    import fractions
    make = (lambda v: decimal.Decimal(str(v))) if index % 2 else (
        lambda v: fractions.Fraction(str(v)))

    def conv(node, key=None):
        if isinstance(node, dict):
            return {k: conv(v, k) for k, v in node.items()}
        if isinstance(node, list):
            return [conv(v, key) for v in node]
        if key in ('d', 't', 'after', 'at', 'start') and isinstance(node, (int, float)) \
                and not isinstance(node, bool) and node == node and abs(node) != float('inf'):
            return make(node)
        return node
    return conv(program)


def run_case(case):
    if case['index'] % 10 == 3 and not case.get('program'):
        return aborted_then_resumed(case)
    if case['index'] % 20 == 7 and not case.get('program'):
        return embedded_clock(case)
    program = case.get('program') or build(case)
    if case['index'] % 16 == 9 and not case.get('program') and abs(program['start']) < 2 ** 53 \
            and not any(step.get('op') == 'nested' for root in program['roots']
                        for step in root['steps']) \
            and 'Infinity' not in json.dumps(program):
        program = exact_program(program, case['index'])
    result = run_once(case, program, None)
    shared = result.pop('shared')
    if shared and not result['violations']:
        # the date-condition objects live on: the same program once more, in a new simulation
        # (whose clock starts before dates that were reached in the first one), with them
        again = run_once(case, program, shared)
        again.pop('shared')
        result['evals'] += 1
        result['stats']['reruns_with_used_conditions'] = 1
        result['stats']['waits_checked'] += again['stats']['waits_checked']
        for vio in again['violations']:
            vio['msg'] = 'second run re-using the date conditions of the first: ' + vio['msg']
        result['violations'] += again['violations']
    if shared and not result['violations'] and case['index'] % 2:
        # ... and once more with conditions whose first simulation was cut short by a failing
        # activity while their dates were still ahead (its loop is gone, the
        # queued triggers with it; the next loop may well live at the same address)
        # (only a failure ends a simulation with dates still queued; `till` lets the loop run dry)
        cut = dict(program, roots=program['roots'] + [{'name': 'saboteur', 'steps': [
            {'op': 'wait', 'n': {'k': 'delay', 'd': [0.25, 0.5, 1, 2][case['index'] // 2 % 4]},
             'id': 'sab1'},
            {'op': 'raise', 'kind': 'err', 'tag': 'sabotage', 'id': 'sab2'}]}])
        sess = Session()
        env, outcome = execute(cut, sess, None)
        used = dict(env.shared)
        # that simulation (and its loop) is let go of at the last moment before the next one
        # is made, so that the new loop has a fair chance to be allocated in its place
        holder = [env, sess]
        del env, sess
        if used:
            again = run_once(case, program, used, holder)
            again.pop('shared')
            result['evals'] += 1
            result['stats']['reruns_after_cut_short_simulation'] = 1
            result['stats']['waits_checked'] += again['stats']['waits_checked']
            for vio in again['violations']:
                vio['msg'] = ('run re-using the date conditions of a simulation that was cut '
                              'short: ' + vio['msg'])
            result['violations'] += again['violations']
    return result


def run_once(case, program, shared, let_go=None):
    model = ClockModel(program)
    sess = Session()

    def prepare(env):
        env.shared.update(shared)
        if let_go:
            let_go.clear()
            gc.collect()
    env, outcome = execute(program, sess, prepare if shared else None)
    violations = [dict(v) for v in sess.violations
                  if not v['mechanism'].startswith(('c04:', 'c05:', 'c06:'))]
    checked = 0
    seen = set()
    if env.outcome != 'ok':
        violations.append({'mechanism': 'run-failed',
                           'msg': 'run() of a pure timing program ended with %s' % env.outcome})
    for event in sess.events:
        when, actor, what = event[0], event[1], event[2]
        if what == 'begin':
            key = 'begin:' + actor
        elif what == 'end' and event[3] == 'wait':
            key = event[4]
        else:
            continue
        seen.add(key)
        expect = model.expect.get(key)
        checked += 1
        if expect is None:
            violations.append({'mechanism': 'harness-error', 'msg': 'no expectation for %s' % key})
        elif expect[0] == 'never':
            violations.append({
                'mechanism': 'resumed-but-never-due',
                'msg': '%s: %s resumed at %r although it can never be due' % (actor, key, when)})
        elif when != expect[1]:
            violations.append({
                'mechanism': 'wrong-resume-time',
                'msg': '%s: %s resumed at %r, expected %r (%s)' % (
                    actor, key, when, expect[1], expect[0])})
    if env.outcome == 'ok':
        for key, expect in model.expect.items():
            if expect[0] == 'at' and key not in seen:
                violations.append({
                    'mechanism': 'wait-not-resumed',
                    'msg': '%s was due at %r but never resumed although run() returned' % (
                        key, expect[1])})
    labels = {label for label, _ in sess.trace}
    sigs = [sess.signature()] if len(labels) >= 2 and len(sess.times) >= 3 else []
    stats = {'waits_checked': checked, 'due_checked': sess.stats['due_checked'],
             'activations': sess.n, 'ties': sum(1 for e in model.expect.values() if e[0] == 'tie'),
             'never_expected': sum(1 for e in model.expect.values() if e[0] == 'never'),
             'distinct_times': len(sess.times)}
    for vio in violations:
        vio['case'] = dict(case, program=program)
    sample = None
    if case['index'] < 16:
        sample = {'program': program, 'expect': {k: list(v) for k, v in model.expect.items()},
                  'events': [list(map(str, ev)) for ev in sess.events[:30]]}
    return {'evals': 1, 'sigs': sigs, 'stats': stats, 'violations': violations, 'sample': sample,
            'shared': dict(env.shared)}
