"""C12 - resources are conserved: never negative, never leaked, claims never wait"""
import itertools
import random

from .. import bootstrap  # noqa: F401
from .. import inject

from usim import Capacities, Resources, ResourcesUnavailable, time, instant

PROPERTY = 'C12'
LEVEL = 'fault_enumeration'
RULE = (
    'Capacities and Resources with 1-3 named resources (integer and dyadic float amounts, zero '
    'amounts), 2-8 borrowers / claimants with amounts '
    'up to the full supply (so waiting and simultaneous release/acquire happen), nested borrows '
    'from a borrowed share, concurrent increase / decrease / set; un-injected run plus cancel / '
    'until-interrupt / close injected at activation boundaries of any borrower (quick: sampled; '
    'thorough: every boundary x borrower x kind + double faults), which includes the two '
    'suspension points inside acquiring and the two inside releasing. Ledger oracle at EVERY '
    'activation boundary: levels >= 0 and (supply - available) equals the sum of the full '
    'amounts of all blocks being held plus some subset of the blocks being acquired / released '
    '(all-or-nothing); blocks that were left must have given everything back by the end of that '
    'time step; available == supply - held at quiescence; claim never takes virtual time and '
    'raises ResourcesUnavailable exactly when the amount was not available on entry; same '
    'ledger for shares of nested borrows. non-trivial = signal landed or reference; distinct = trace'
)
RULE = RULE + (' Further: an unlimited resource, a resource with a huge exact amount (claims of one more refused), refused decreases of several resources at once, bursts of forceful tear-downs in one time step, the adjusting activity struck like any participant.')

LEVEL_TEXT = (
    'Fault enumeration by runtime monitoring: a conservation ledger, fed by the phase '
    'transitions the harness logs in the same turn as the real calls, is compared with the real '
    'levels at every activation boundary while signals are injected at every boundary of every '
    'borrower (thorough).')
TECHNIQUE = 'runtime monitoring: conservation ledger (in = out + held, all-or-nothing) checked at every activation boundary, signal injection at boundaries'
ASSUMPTIONS = [
    'a block left by any route may still give back within the time step in which it is left '
    '(forceful close returns through scheduled helpers)',
]
REQUIRED_STATS = ['ledger_checks', 'blocks_held', 'signals_landed', 'struck:cancel',
                  'struck:interrupt', 'struck:close', 'claims']

GRID = [0, 0, 0, 0.5, 0.5, 1, 1, 2]


def n_cases(tier):
    return 400 if tier == 'quick' else 1200


def make_case(seed, index, tier):
    rng = random.Random('%s/%s/c12' % (seed, index))
    kind = rng.choice(['capacities', 'resources', 'resources'])
    fields = rng.sample(['a', 'b', 'c'], rng.randint(1, 3))
    fractional = rng.random() < 0.25        # dyadic float amounts (exact arithmetic)
    unit = 0.5 if fractional else 1
    supply = {field: rng.randint(1, 5) * unit + (0.25 if fractional and rng.random() < 0.3 else 0)
              for field in fields}

    if fractional and rng.random() < 0.5:
        # the supply is declared with whole numbers (ints), the amounts moved are fractions
        supply = {field: max(1, int(value)) for field, value in supply.items()}

    def pick(upper):
        if not fractional:
            return rng.randint(0, upper)
        return rng.choice([0, 0.25, 0.5, 1, 1.5, upper, upper / 2, upper])

    def amounts(limit):
        result = {field: min(pick(limit[field]), limit[field]) for field in fields
                  if rng.random() < 0.75}
        if not result:
            field = rng.choice(fields)
            result = {field: min(pick(limit[field]), limit[field])}
        return result
    users = []
    # one request object (`request = supply.borrow(...)`) that several blocks enter, also at
    # overlapping times
    template = amounts(supply) if rng.random() < 0.35 else None
    template_claim = rng.random() < 0.3
    for number in range(rng.randint(2, 8)):
        rounds = []
        for _ in range(rng.randint(1, 3)):
            if template is not None and rng.random() < 0.6:
                rounds.append({'offset': rng.choice(GRID), 'amounts': dict(template),
                               'claim': template_claim, 'hold': rng.choice(GRID),
                               'shared': True})
                continue
            amount = amounts(supply)
            round_ = {'offset': rng.choice(GRID), 'amounts': amount,
                      'claim': rng.random() < 0.3, 'hold': rng.choice(GRID)}
            if rng.random() < 0.3:
                round_['nested'] = {'amounts': {key: min(pick(value), value)
                                                for key, value in amount.items()},
                                    'hold': rng.choice(GRID), 'claim': rng.random() < 0.3}
            rounds.append(round_)
        users.append({'name': 'u%d' % number, 'rounds': rounds})
    adjust = []
    if kind == 'resources':
        for _ in range(rng.randint(0, 4)):
            adjust.append({'offset': rng.choice(GRID),
                           'how': rng.choice(['increase', 'decrease', 'set']),
                           'amounts': {rng.choice(fields): rng.randint(0, 3) * unit}})
            if rng.random() < 0.4:
                # several resources at once, possibly more than is there of some of them
                adjust[-1]['amounts'] = {field: rng.choice([0, 1, 1, 2, 5, 9]) * unit
                                         for field in fields if rng.random() < 0.8} or {
                                             fields[0]: unit}
    unlimited = kind == 'resources' and rng.random() < 0.15
    if unlimited:
        # one more resource of which there is an unlimited amount ('inf' in the JSON): some
        # users take of it, nobody adjusts it - its level is infinite at all times
        supply = dict(supply, u='inf')
        for user in users:
            for round_ in user['rounds']:
                if rng.random() < 0.3 and not round_.get('shared'):
                    round_['amounts'] = dict(round_['amounts'], u=rng.choice([1, 2, 1000]))
    if not unlimited and kind == 'resources' and not fractional and rng.random() < 0.25:
        # one more resource of which there is a huge (exact) amount: claims of all of it are
        # granted, claims of one more than there is are refused - however small the difference
        # is compared with the amount
        huge = rng.choice([10 ** 12, 10 ** 15 + 7, 2 ** 60])
        supply = dict(supply, h=huge)
        for user in users:
            for round_ in user['rounds']:
                if round_.get('shared') or rng.random() < 0.5:
                    continue
                if round_['claim']:
                    round_['amounts'] = dict(round_['amounts'], h=huge + rng.choice([0, 1, 1, 2]))
                else:
                    round_['amounts'] = dict(round_['amounts'], h=rng.choice([huge, huge - 1, 1]))
                round_.pop('nested', None)
    return {'seed': seed, 'index': index, 'tier': tier,
            'scenario': {'kind': kind, 'supply': supply, 'users': users, 'adjust': adjust}}


def vec_sub(left, right, fields):
    return tuple(left.get(field, 0) - right.get(field, 0) for field in fields)


class Pool:
    """ledger of one pool: the top-level resource or the share of a held block"""

    def __init__(self, ledger, name, resource, supply):
        self.ledger = ledger
        self.name = name
        self.resource = resource
        self.supply = dict(supply)
        self.blocks = {}       # block id -> [state, amounts, left_at_time]

    def levels(self):
        return dict(self.resource.levels)

    def check(self, now, where):
        ledger = self.ledger
        fields = ledger.fields
        levels = self.levels()
        ledger.stats['ledger_checks'] += 1
        infinite = [field for field in fields if self.supply.get(field) == float('inf')]
        if infinite:
            # there is no arithmetic to do on an unlimited resource: it stays unlimited
            fields = [field for field in fields if field not in infinite]
            for field in infinite:
                if levels[field] != float('inf'):
                    ledger.violation('not-conserved', '%s: the level of the unlimited resource '
                                     '%r is %r at %r (%s)' % (self.name, field, levels[field],
                                                              now, where))
        if any(not levels[field] >= 0 for field in levels):
            ledger.violation('negative-level', '%s: levels %s at %r (%s)' % (
                self.name, levels, now, where))
        outstanding = vec_sub(self.supply, levels, fields)
        held = [blk for blk in self.blocks.values() if blk[0] == 'held']
        optional = [blk for blk in self.blocks.values()
                    if blk[0] in ('acquiring', 'releasing', 'leaving')]
        base = tuple(sum(blk[1].get(field, 0) for blk in held) for field in fields)
        need = tuple(o - b for o, b in zip(outstanding, base))
        if all(value == 0 for value in need):
            return
        for size in range(1, len(optional) + 1):
            for subset in itertools.combinations(optional, size):
                total = tuple(sum(blk[1].get(field, 0) for blk in subset) for field in fields)
                if total == need:
                    return
        ledger.violation(
            'not-conserved' if not optional else 'not-conserved-in-transit',
            '%s at %r (%s): supply %s, available %s; held blocks account for %s, blocks in '
            'transit %s cannot account for the remaining %s' % (
                self.name, now, where, self.supply, levels, base,
                [(blk[0], blk[1]) for blk in optional], need))

    def expire(self, prev_time):
        for key, blk in list(self.blocks.items()):
            if blk[0] == 'leaving' and blk[2] <= prev_time:
                del self.blocks[key]


class Ledger:
    def __init__(self, arena, fields):
        self.arena = arena
        self.sess = arena.sess
        self.fields = fields
        self.pools = {}
        self.counter = 0
        self.requests = {}     # id(request object) -> [request object, blocks currently holding it]
        self.stats = {'ledger_checks': 0, 'blocks_held': 0, 'claims': 0, 'claims_refused': 0,
                      'nested_held': 0, 'waited_borrows': 0, 'blocks_struck': 0,
                      'adjustments': 0}
        self.sess.boundary_hooks.append(self.boundary)
        self.sess.step_end_hooks.append(self.step_end)
        self.sess.quiescence_hooks.append(self.quiescence)

    def violation(self, mechanism, msg):
        self.sess.violation('c12:' + mechanism, msg)

    def pool(self, name, resource, supply):
        pool = self.pools[name] = Pool(self, name, resource, supply)
        return pool

    def boundary(self, sess, loop, target, signal):
        for pool in list(self.pools.values()):
            pool.check(loop.time, 'boundary %d' % sess.n)

    def step_end(self, sess, loop, prev_time):
        for pool in list(self.pools.values()):
            pool.expire(prev_time)
            pool.check(prev_time, 'end of time step')

    def quiescence(self, sess, loop):
        for pool in list(self.pools.values()):
            for key, blk in list(pool.blocks.items()):
                if blk[0] != 'held':
                    # still acquiring at quiescence = waiting forever, holds nothing;
                    # everything else must have been given back
                    del pool.blocks[key]
            pool.check(loop.time, 'quiescence')
        # a request object that nobody holds any more has an empty share: whatever was credited
        # to it while acquiring / holding has been taken back
        for manager, holders in self.requests.values():
            if holders:
                continue
            self.stats['idle_shares_checked'] = self.stats.get('idle_shares_checked', 0) + 1
            levels = dict(manager.levels)
            if any(levels.values()):
                self.violation('idle-share-not-empty',
                               'at quiescence the share of a borrow/claim request that nobody '
                               'holds reads %s' % (levels,))

    def new_block(self, pool, amounts):
        self.counter += 1
        pool.blocks[self.counter] = ['acquiring', dict(amounts), None]
        return self.counter


def earlier_simulation(resource, supply):
    """a complete, separate run() in which the same resource object was contended and
    everything was given back"""
    import usim
    field, amount = sorted(supply.items())[0]

    async def user(hold):
        async with resource.borrow(**{field: amount}):
            await (time + hold)

    async def main():
        async with usim.Scope() as scope:
            scope.do(user(1))
            scope.do(user(0.5))
            scope.do(user(0))
            # one holder and one waiter are forcefully closed at the end of that simulation
            scope.do(user(1000), volatile=True)
            scope.do(user(1000), volatile=True)
            await (time + 2)
    usim.run(main())


def build_for(case):
    scenario = case['scenario']
    scenario = dict(scenario, supply={field: float('inf') if value == 'inf' else value
                                      for field, value in scenario['supply'].items()})
    fields = sorted(scenario['supply'])

    def build(arena):
        # (some scenarios run on a clock that starts below zero and crosses it)
        arena.start = [-1.5, -1, -0.5][case['index'] % 3] if case['index'] % 11 == 7 else 0
        if scenario['kind'] == 'capacities':
            resource = inject.made(case, lambda: Capacities(**scenario['supply']))
        else:
            resource = inject.made(case, lambda: Resources(**scenario['supply']))
        if case['index'] % 5 < 2:
            earlier_simulation(resource, scenario['supply'])
        ledger = Ledger(arena, fields)
        top = ledger.pool('top', resource, scenario['supply'])
        shared = {}

        async def use(name, pool, spec, depth):
            res = pool.resource
            amounts = spec['amounts']
            block = ledger.new_block(pool, amounts)
            started = time.now
            available = pool.levels()
            fits = all(available.get(key, 0) >= value for key, value in amounts.items())
            arena.log(name, 'acquire-start', pool.name, amounts, spec['claim'])
            try:
                try:
                    if spec.get('shared'):
                        if 'request' not in shared:
                            shared['request'] = res.claim(**amounts) if spec['claim'] \
                                else res.borrow(**amounts)
                        manager = shared['request']
                        ledger.stats['shared_request_entries'] = ledger.stats.get(
                            'shared_request_entries', 0) + 1
                    else:
                        manager = res.claim(**amounts) if spec['claim'] \
                            else res.borrow(**amounts)
                    record = ledger.requests.setdefault(id(manager), [manager, 0])
                    async with manager as share:
                        pool.blocks[block][0] = 'held'
                        record[1] += 1
                        arena.log(name, 'held', pool.name, amounts)
                        ledger.stats['blocks_held'] += 1
                        if depth:
                            ledger.stats['nested_held'] += 1
                        if spec['claim']:
                            ledger.stats['claims'] += 1
                            if time.now != started:
                                ledger.violation('claim-waited', '%s: claim of %s started at %r '
                                                 'and was granted at %r' % (
                                                     name, amounts, started, time.now))
                            if not fits:
                                ledger.violation('claim-granted-unavailable',
                                                 '%s: claim of %s granted although only %s was '
                                                 'available on entry' % (name, amounts, available))
                        elif time.now != started:
                            ledger.stats['waited_borrows'] += 1
                        try:
                            if spec.get('nested'):
                                inner = ledger.pool('share-%d' % block, share, amounts)
                                try:
                                    await use(name, inner, spec['nested'], depth + 1)
                                finally:
                                    del ledger.pools['share-%d' % block]
                            if spec['hold']:
                                await (time + spec['hold'])
                            else:
                                await instant
                            if block % 7 == 3 and not spec.get('shared'):
                                # (not with a request object that several blocks have entered
                                # at once: its share holds the amount once per entry)
                                # a claim on the share that is refused, the refusal being handled
                                # outside of this block: the block is left by ResourcesUnavailable
                                ledger.stats['left_by_inner_refusal'] = ledger.stats.get(
                                    'left_by_inner_refusal', 0) + 1
                                # (within the capacity of the share - asking for more than
                                # that is a usage error - but all of it is taken already)
                                if any(amounts.values()):
                                    async with share.borrow(**amounts):
                                        async with share.claim(**amounts):
                                            ledger.violation(
                                                'claim-granted-unavailable',
                                                '%s: a claim of %s on a share all of which is '
                                                'borrowed was granted' % (name, amounts))
                        finally:
                            pool.blocks[block][0] = 'releasing'
                            arena.log(name, 'release-start', pool.name, amounts)
                except ResourcesUnavailable:
                    if pool.blocks[block][0] == 'releasing':
                        return      # (the refusal of the inner claim, handled out here)
                    ledger.stats['claims_refused'] += 1
                    arena.log(name, 'unavailable', pool.name, amounts)
                    if not spec['claim']:
                        ledger.violation('borrow-raised-unavailable',
                                         '%s: borrow raised ResourcesUnavailable' % name)
                    elif fits:
                        ledger.violation('claim-refused-available',
                                         '%s: claim of %s refused although %s was available on '
                                         'entry' % (name, amounts, available))
                    if time.now != started:
                        ledger.violation('claim-waited', '%s: claim took virtual time' % name)
                    del pool.blocks[block]
                    return
            except BaseException:
                ledger.stats['blocks_struck'] += 1
                raise
            finally:
                if block in pool.blocks and pool.blocks[block][0] in ('held', 'releasing'):
                    record[1] -= 1
                if block in pool.blocks:
                    pool.blocks[block][0] = 'leaving'
                    pool.blocks[block][2] = time.now
                    arena.log(name, 'left', pool.name, amounts)

        def user(spec):
            name = spec['name']

            async def run():
                for round_ in spec['rounds']:
                    if round_['offset']:
                        await (time + round_['offset'])
                    await use(name, top, round_, 0)
            return run

        async def adjuster():
            for op in scenario['adjust']:
                if op['offset']:
                    await (time + op['offset'])
                levels = top.levels()
                ledger.stats['adjustments'] += 1
                if op['how'] == 'increase':
                    for key, value in op['amounts'].items():
                        top.supply[key] += value
                    arena.log('adjust', 'increase', op['amounts'])
                    await resource.increase(**op['amounts'])
                elif op['how'] == 'decrease':
                    if all(levels[key] >= value for key, value in op['amounts'].items()):
                        for key, value in op['amounts'].items():
                            top.supply[key] -= value
                        arena.log('adjust', 'decrease', op['amounts'])
                        await resource.decrease(**op['amounts'])
                    elif __debug__:
                        # more than is there of some (not necessarily all) of the resources:
                        # refused as a whole. (Under -O nothing guards this usage error.)
                        ledger.stats['decreases_below_zero_tried'] = ledger.stats.get(
                            'decreases_below_zero_tried', 0) + 1
                        try:
                            await resource.decrease(**op['amounts'])
                        except AssertionError:
                            pass
                        else:
                            ledger.violation(
                                'level-below-zero',
                                'decrease(%s) with levels %s was carried out: levels now %s' % (
                                    op['amounts'], levels, top.levels()))
                            for key, value in op['amounts'].items():
                                top.supply[key] -= value
                else:
                    for key, value in op['amounts'].items():
                        top.supply[key] += value - levels[key]
                    arena.log('adjust', 'set', op['amounts'])
                    await resource.set(**op['amounts'])
        participants = [(spec['name'], user(spec)) for spec in scenario['users']]
        background = []
        if scenario['adjust'] and case['index'] % 2:
            # whoever adjusts the supply can be struck like anybody else (an adjustment is made
            # when it is called; what strikes its caller afterwards does not take it back)
            participants.append(('adjuster', adjuster))
        elif scenario['adjust']:
            background = [adjuster()]
        return participants, background, ledger
    return build


def check(sess, arena, checker, outcome, plan):
    found = inject.kernel_violations(sess, outcome)
    found += [dict(v) for v in sess.violations if v['mechanism'].startswith('c12:')]
    return found


def detached_bursts(case):
    """several blocks are torn down forcefully (volatile holders closed when their scope ends,
    holders whose scope is aborted by a failure) within one time step, in turns that follow each
    other closely: every one of them hands back what it held - at quiescence the supply is
    complete"""
    import usim
    from usim import time, Scope, instant, Capacities, Resources
    from ..probe import Session
    rng = random.Random('%s/%s/c12-burst' % (case['seed'], case['index']))
    holders = rng.randint(2, 6)
    kind = rng.choice(['capacities', 'resources'])
    supply = holders + rng.randint(0, 2)
    res = (Capacities if kind == 'capacities' else Resources)(a=supply, b=supply)
    gaps = [rng.choice([0, 0, 1, 1, 2, 3]) for _ in range(holders)]     # turns between closings
    how = [rng.choice(['volatile', 'volatile', 'failing-scope', 'claimed']) for _ in range(holders)]
    levels_seen = []

    class Leave(Exception):
        pass

    async def holds(number):
        request = res.claim(a=1) if how[number] == 'claimed' else res.borrow(a=1, b=1)
        async with request:
            await usim.eternity

    async def owner(number):
        try:
            async with Scope() as scope:
                scope.do(holds(number), volatile=how[number] != 'failing-scope')
                await (time + 1)
                for _ in range(sum(gaps[:number + 1])):
                    await instant
                if how[number] == 'failing-scope':
                    raise Leave
        except Leave:
            pass

    async def main():
        async with Scope() as scope:
            for number in range(holders):
                scope.do(owner(number))
        await (time + 1)
        levels_seen.append({key: getattr(res.levels, key) for key in ('a', 'b')})

    sess = Session()
    outcome = sess.run(main())
    violations = [dict(v) for v in sess.violations if v['mechanism'].startswith('kernel-')]
    what = '%d holders of %s(a=%d, b=%d) torn down %s, %s turns apart, in one time step' % (
        holders, kind, supply, supply, how, gaps)
    if outcome[0] != 'ok':
        violations.append({'mechanism': 'c12:run-failed', 'msg': '%s: %r' % (what, outcome[1])})
    elif levels_seen != [{'a': supply, 'b': supply}]:
        violations.append({'mechanism': 'c12:not-conserved',
                           'msg': '%s: levels at quiescence %s' % (what, levels_seen)})
    for vio in violations:
        vio['case'] = dict(case)
    return {'evals': 1, 'sigs': [sess.signature()], 'violations': violations, 'sample': None,
            'stats': {'detached_bursts': 1, 'activations': sess.n}}


def run_case(case):
    if case['index'] % 10 == 6 and case.get('plan') is None:
        return detached_bursts(case)
    rng = random.Random('%s/%s/c12-inj' % (case['seed'], case['index']))
    return inject.explore(case, build_for(case), rng, check, case['tier'],
                          quick_samples=12, max_plans=400)
