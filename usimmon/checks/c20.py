"""C20 - every awaitable operation yields to the other runnable activities at least once"""
import random

from .. import bootstrap  # noqa: F401
from ..probe import Session
from ..gen import Gen
from ..prog import Env, activity

import usim
from usim import (Flag, Tracked, Lock, Queue, Channel, Resources, Capacities, Pipe,
                  UnboundedPipe, Scope, until, time, instant, eternity, StreamClosed,
                  ResourcesUnavailable)

PROPERTY = 'C20'
LEVEL = 'exploration'
RULE = (
    'enumeration of (operation, primitive state) pairs x k in {1, 3, 8} competing runnable '
    'activities: awaiting flag / inverse / tracked comparison / connective / time condition / '
    'instant / delay / task / task.done / scope (already true or done, and not yet); Flag.set '
    '(changing, not changing), Tracked.set and operators; Queue and Channel put / get / close / '
    'iteration steps (open, closed, buffered); borrow / claim enter and exit (available, zero '
    'amount, nested), increase / decrease / set; Pipe.transfer (zero volume, positive, unbounded, '
    'limit given or not); every step of interval / delay (p = 0, p > 0); collect / first '
    '(empty, finished activities); leaving Scope / until blocks (empty, finished children). '
    'k spinner activities are made runnable in the very turn in which the operation is issued; '
    'oracle: when the operation completes successfully at the same virtual time, every spinner '
    'has had a turn. The thorough tier repeats each pair next to random surrounding programs. '
    'Second family: generated programs over the whole API (quick 600, thorough 1500, with '
    'injected cancellations) in which the interpreter reports every single wait / set / put / '
    'get / close / transfer / increase / decrease / await task that completes within the '
    'activation in which it was issued. '
    'non-trivial = pair completed without the clock advancing; distinct = (pair, k, surrounding)'
)
RULE = RULE + (' Further pairs: spans the clock absorbs, leaving a Scope whose abort is pending; in general programs an operation completes only after everything that was runnable when it was issued had its turn.')

LEVEL_TEXT = (
    'Exploration by runtime monitoring: for every listed operation in every state in which it '
    'can complete without waiting, spinner activities that are runnable at that moment count '
    'their turns; an operation that completes before all of them ran is reported. The list of '
    'pairs is enumerated completely in both tiers.')
TECHNIQUE = 'runtime monitoring: spinner-turn counter around each operation (enumerated operation x state x competitors)'
ASSUMPTIONS = ['only operations that complete successfully are judged (statement)']
REQUIRED_STATS = ['pairs_judged', 'same_time_completions', 'general_ops_checked']
EXHAUSTIVE = False

KS = (1, 3, 8)


class Bench:
    def __init__(self, sess, k):
        self.sess = sess
        self.k = k
        self.scope = None
        self.judged = []
        self.turns = []

    async def spinner(self, index):
        for _ in range(3):
            self.turns[index] += 1
            await instant

    async def probe(self, name, factory):
        """make k spinners runnable, then issue the operation in the same turn"""
        base = len(self.turns)
        self.turns.extend([0] * self.k)
        started = time.now
        for index in range(self.k):
            coro = self.spinner(base + index)
            coro.__name__ = coro.__qualname__ = 'spinner%d' % (base + index)
            self.scope.do(coro)
        try:
            result = await factory()
        except (StreamClosed, ResourcesUnavailable, ValueError, StopAsyncIteration) as exc:
            self.judged.append((name, 'raised:' + type(exc).__name__, None))
            return exc
        same_time = time.now == started
        starved = [index for index in range(base, base + self.k) if self.turns[index] == 0]
        self.judged.append((name, 'same-time' if same_time else 'time-advanced',
                            starved if same_time else []))
        if same_time and starved:
            self.sess.violation(
                'c20:no-yield:' + name.split('[')[0],
                'operation %s completed at %r before %d of %d runnable activities had a turn'
                % (name, started, len(starved), self.k))
        return result


async def _noop():
    return 7


async def _sleep(delay):
    await (time + delay)
    return delay


def pairs():
    """[(name, coroutine function taking a Bench)] - every (operation, state) pair"""
    out = []

    def add(name):
        def deco(fn):
            out.append((name, fn))
            return fn
        return deco

    # ---- conditions ----
    @add('await flag[set]')
    async def _(b):
        f = Flag()
        await f.set()
        await b.probe('await flag[set]', lambda: f.__await__().__await__() if False else _aw(f))

    @add('await ~flag[unset]')
    async def _(b):
        f = Flag()
        await b.probe('await ~flag[unset]', lambda: _aw(~f))

    @add('await flag[set later]')
    async def _(b):
        f = Flag()
        b.scope.do(_set_later(f, 1))
        await b.probe('await flag[set later]', lambda: _aw(f))

    @add('await flag[set in this time step]')
    async def _(b):
        f = Flag()
        b.scope.do(_set_later(f, 0))
        await b.probe('await flag[set in this time step]', lambda: _aw(f))

    @add('await tracked==[true]')
    async def _(b):
        t = Tracked(3)
        await b.probe('await tracked==[true]', lambda: _aw(t == 3))

    @add('await ~(tracked==)[true]')
    async def _(b):
        t = Tracked(3)
        await b.probe('await ~(tracked==)[true]', lambda: _aw(~(t == 4)))

    @add('await a&b[true]')
    async def _(b):
        f, g = Flag(), Flag()
        await f.set()
        await g.set()
        await b.probe('await a&b[true]', lambda: _aw(f & g))

    @add('await a|b[true]')
    async def _(b):
        f, g = Flag(), Flag()
        await f.set()
        await b.probe('await a|b[true]', lambda: _aw(f | g))

    # one connective object shared by an until-block / another connective (which observe it)
    # and a plain waiter that arrives in the very instant in which it became true
    for how in ('or', 'and'):
        for observer in ('until', 'operand', 'waiter'):
            def make(how=how, observer=observer):
                label = 'await shared a%sb[observed by %s, became true this instant]' % (
                    '|' if how == 'or' else '&', observer)

                async def case(b):
                    f, g, other = Flag(), Flag(), Flag()
                    if how == 'and':
                        await g.set()
                    conn = (f | g) if how == 'or' else (f & g)

                    async def observe():
                        if observer == 'until':
                            async with until(conn):
                                await eternity
                        elif observer == 'operand':
                            await (conn & ~other)
                        else:
                            await conn

                    async def setter():
                        await (time + 1)
                        await f.set()
                    b.scope.do(observe())
                    b.scope.do(setter())
                    await instant           # both have started and are suspended
                    await (time + 1)        # due after the setter, in the same time step
                    await b.probe(label, lambda: _aw(conn))
                return label, case
            out.append(make())

    @add('await a&(b|c)[true]')
    async def _(b):
        f, g, h = Flag(), Flag(), Flag()
        await f.set()
        await h.set()
        await b.probe('await a&(b|c)[true]', lambda: _aw(f & (g | h)))

    @add('await time>=[past]')
    async def _(b):
        await b.probe('await time>=[past]', lambda: _aw(time >= time.now - 1))

    @add('await time>=[now]')
    async def _(b):
        await b.probe('await time>=[now]', lambda: _aw(time >= time.now))

    @add('await time==[now]')
    async def _(b):
        await b.probe('await time==[now]', lambda: _aw(time == time.now))

    @add('await time<[future]')
    async def _(b):
        await b.probe('await time<[future]', lambda: _aw(time < time.now + 5))

    @add('await instant')
    async def _(b):
        await b.probe('await instant', lambda: _aw(instant))

    @add('await time+0')
    async def _(b):
        await b.probe('await time+0', lambda: _aw(time + 0))

    @add('await time+d')
    async def _(b):
        await b.probe('await time+d', lambda: _aw(time + 1))

    @add('await ~eternity')
    async def _(b):
        await b.probe('await ~eternity', lambda: _aw(~eternity))

    @add('await levels>=[true]')
    async def _(b):
        res = Resources(a=3, b=2)
        await b.probe('await levels>=[true]', lambda: _aw(res >= dict(a=1)))

    # ---- tasks and scopes ----
    @add('await task[done]')
    async def _(b):
        async with Scope() as scope:
            task = scope.do(_noop())
        await b.probe('await task[done]', lambda: _aw(task))

    @add('await task.done[done]')
    async def _(b):
        async with Scope() as scope:
            task = scope.do(_noop())
        await b.probe('await task.done[done]', lambda: _aw(task.done))

    @add('await ~task.done[running]')
    async def _(b):
        async with Scope() as scope:
            task = scope.do(_sleep(1))
            await b.probe('await ~task.done[running]', lambda: _aw(~task.done))

    @add('await task[finishes in this time step]')
    async def _(b):
        async with Scope() as scope:
            task = scope.do(_noop())
            await b.probe('await task[finishes in this time step]', lambda: _aw(task))

    @add('await task[cancelled before start]')
    async def _(b):
        async with Scope() as scope:
            task = scope.do(_sleep(1))
            task.cancel()

            async def wait():
                try:
                    await task
                except usim.TaskCancelled:
                    return None
            await b.probe('await task[cancelled before start]', wait)

    @add('await task[failed]')
    async def _(b):
        async def failing():
            raise KeyError('the task has failed')
        try:
            async with Scope() as scope:
                task = scope.do(failing())
        except usim.Concurrent:
            pass

        async def wait():
            try:
                await task
            except KeyError:
                return None
        await b.probe('await task[failed]', wait)
        await b.probe('await task.done[failed]', lambda: _aw(task.done))

    @add('await task[cancelled while running]')
    async def _(b):
        async with Scope() as scope:
            task = scope.do(_sleep(5))
            await (time + 1)
            task.cancel()
            await (time + 1)

            async def wait():
                try:
                    await task
                except usim.TaskCancelled:
                    return None
            await b.probe('await task[cancelled while running]', wait)

    @add('await scope[body done]')
    async def _(b):
        async with Scope() as scope:
            pass
        await b.probe('await scope[body done]', lambda: _aw(scope))

    @add('leave Scope[empty]')
    async def _(b):
        scope = Scope()
        await scope.__aenter__()
        await b.probe('leave Scope[empty]', lambda: scope.__aexit__(None, None, None))

    @add('leave Scope[finished child]')
    async def _(b):
        scope = Scope()
        await scope.__aenter__()
        scope.do(_noop())
        await instant
        await instant
        await b.probe('leave Scope[finished child]', lambda: scope.__aexit__(None, None, None))

    @add('leave Scope[volatile child]')
    async def _(b):
        scope = Scope()
        await scope.__aenter__()
        scope.do(_sleep(5), volatile=True)
        await b.probe('leave Scope[volatile child]', lambda: scope.__aexit__(None, None, None))

    for label, make_error in (('reported failure', lambda: KeyError('boom')),
                              ('failure that scopes do not report',
                               lambda: usim.TaskCancelled(None, 'boom'))):
        def make(label=label, make_error=make_error):
            async def case(b):
                # A child fails while the wake-up of the body is queued already: the body goes
                # on and leaves the block while the abort is still pending. Whoever became
                # runnable before the failure still gets its turn before the block is left.
                name = 'leave Scope[child failed, abort pending; %s]' % label
                seen = []

                async def competitor(index):
                    await instant
                    await instant
                    seen.append(index)

                async def failing():
                    await instant
                    raise make_error()

                for index in range(b.k):
                    b.scope.do(competitor(index))
                started = time.now
                try:
                    async with Scope() as scope:
                        scope.do(failing())
                        await instant
                        await instant
                        ahead = list(seen)
                except usim.Concurrent:
                    pass
                after = list(seen)
                starved = [index for index in range(b.k) if index not in after]
                b.judged.append((name, 'same-time' if time.now == started else 'time-advanced',
                                 starved))
                if ahead:
                    return          # (the competitors were through already: nothing to see)
                if starved and time.now == started:
                    b.sess.violation(
                        'c20:no-yield:leave Scope',
                        'operation %s completed at %r before %d of %d runnable activities had '
                        'a turn' % (name, started, len(starved), b.k))
            return case
        out.append(('leave Scope[child failed, abort pending; %s]' % label, make()))

    @add('leave until[empty, eternity]')
    async def _(b):
        scope = until(eternity)
        await scope.__aenter__()
        await b.probe('leave until[empty, eternity]', lambda: scope.__aexit__(None, None, None))

    # NOT judged: leaving an until() block whose notification already fired.  The block does
    # not "complete" its exit - it is abandoned by its own interrupt at the suspension point
    # inside the exit (C07), and that interrupt was queued before the competitors became
    # runnable; the exit does suspend, so a loop of such blocks cannot starve anyone.

    @add('async with Scope[empty] whole')
    async def _(b):
        async def whole():
            async with Scope():
                pass
        await b.probe('async with Scope[empty] whole', whole)

    # ---- flags and tracked ----
    @add('Flag.set[changing]')
    async def _(b):
        f = Flag()
        await b.probe('Flag.set[changing]', lambda: f.set())

    @add('Flag.set[not changing]')
    async def _(b):
        f = Flag()
        await f.set()
        await b.probe('Flag.set[not changing]', lambda: f.set())

    @add('Flag.set(False)[changing]')
    async def _(b):
        f = Flag()
        await f.set()
        await b.probe('Flag.set(False)[changing]', lambda: f.set(False))

    @add('(~flag).set')
    async def _(b):
        f = Flag()
        await b.probe('(~flag).set', lambda: (~f).set())

    @add('Tracked.set')
    async def _(b):
        t = Tracked(1)
        await b.probe('Tracked.set', lambda: t.set(2))

    for symbol, op in (('+', lambda t: t + 1), ('-', lambda t: t - 1), ('*', lambda t: t * 2),
                       ('//', lambda t: t // 2), ('**', lambda t: t ** 2), ('%', lambda t: t % 2),
                       ('/', lambda t: t / 2), ('<<', lambda t: t << 1), ('>>', lambda t: t >> 1),
                       ('&', lambda t: t & 4), ('|', lambda t: t | 2), ('^', lambda t: t ^ 1),
                       ('pow mod', lambda t: pow(t, 2, 7)), ('+ 0', lambda t: t + 0),
                       ('* 1', lambda t: t * 1), ('pow mod same', lambda t: pow(t, 1, 7))):
        def make(symbol=symbol, op=op):
            async def case(b):
                t = Tracked(5)
                await b.probe('tracked %s x' % symbol, lambda: _aw(op(t)))
            return case
        out.append(('tracked %s x' % symbol, make()))

    # ---- streams ----
    for kind, cls in (('Queue', Queue), ('Channel', Channel)):
        def stream_cases(kind=kind, cls=cls):
            async def put_open(b):
                s = cls()
                await b.probe('%s.put[open]' % kind, lambda: s.put(1))

            async def put_closed(b):
                s = cls()
                await s.close()
                await b.probe('%s.put[closed]' % kind, lambda: s.put(1))

            async def close_open(b):
                s = cls()
                await b.probe('%s.close[open]' % kind, lambda: s.close())

            async def close_closed(b):
                s = cls()
                await s.close()
                await b.probe('%s.close[closed]' % kind, lambda: s.close())

            async def get_closed(b):
                s = cls()
                await s.close()
                await b.probe('await %s[closed]' % kind, lambda: _aw(s))

            async def get_put_in_step(b):
                s = cls()
                b.scope.do(_put_later(s, 0))
                await b.probe('await %s[put in this time step]' % kind, lambda: _aw(s))

            async def iter_closed(b):
                s = cls()
                await s.close()
                it = s.__aiter__()
                await b.probe('iterate %s[closed]' % kind, lambda: it.__anext__())
            return [('%s.put[open]' % kind, put_open), ('%s.put[closed]' % kind, put_closed),
                    ('%s.close[open]' % kind, close_open),
                    ('%s.close[closed]' % kind, close_closed),
                    ('await %s[closed]' % kind, get_closed),
                    ('await %s[put in this time step]' % kind, get_put_in_step),
                    ('iterate %s[closed]' % kind, iter_closed)]
        out.extend(stream_cases())

    @add('await Queue[buffered]')
    async def _(b):
        q = Queue()
        await q.put(1)
        await b.probe('await Queue[buffered]', lambda: _aw(q))

    @add('iterate Queue[buffered]')
    async def _(b):
        q = Queue()
        await q.put(1)
        await q.put(2)
        it = q.__aiter__()
        await b.probe('iterate Queue[buffered]', lambda: it.__anext__())
        await b.probe('iterate Queue[buffered, 2nd]', lambda: it.__anext__())
        await it.aclose()

    @add('iterate Queue[buffered then closed]')
    async def _(b):
        q = Queue()
        await q.put(1)
        await q.close()
        it = q.__aiter__()
        await b.probe('iterate Queue[buffered then closed]', lambda: it.__anext__())
        await it.aclose()

    @add('iterate Channel[message buffered]')
    async def _(b):
        c = Channel()
        it = c.__aiter__()
        b.scope.do(_put_later(c, 0))
        b.scope.do(_put_later(c, 0))
        await it.__anext__()
        await b.probe('iterate Channel[message buffered]', lambda: it.__anext__())
        await it.aclose()

    # ---- resources ----
    for kind, make_res in (('Resources', lambda: Resources(a=3, b=2)),
                           ('Capacities', lambda: Capacities(a=3, b=2))):
        def res_cases(kind=kind, make_res=make_res):
            async def borrow_available(b):
                res = make_res()
                block = res.borrow(a=1)
                await b.probe('%s.borrow enter[available]' % kind, lambda: block.__aenter__())
                await b.probe('%s.borrow exit' % kind, lambda: block.__aexit__(None, None, None))

            async def borrow_zero(b):
                res = make_res()
                block = res.borrow(a=0)
                await b.probe('%s.borrow enter[zero amount]' % kind, lambda: block.__aenter__())
                await b.probe('%s.borrow exit[zero amount]' % kind,
                              lambda: block.__aexit__(None, None, None))

            async def borrow_all(b):
                res = make_res()
                block = res.borrow(a=3, b=2)
                await b.probe('%s.borrow enter[whole supply]' % kind, lambda: block.__aenter__())
                await b.probe('%s.borrow exit[whole supply]' % kind,
                              lambda: block.__aexit__(None, None, None))

            async def claim_available(b):
                res = make_res()
                block = res.claim(a=2)
                await b.probe('%s.claim enter[available]' % kind, lambda: block.__aenter__())
                await b.probe('%s.claim exit' % kind, lambda: block.__aexit__(None, None, None))

            async def claim_unavailable(b):
                res = make_res()
                block = res.claim(a=3)
                async with res.borrow(a=1):
                    await b.probe('%s.claim enter[unavailable]' % kind,
                                  lambda: block.__aenter__())

            async def nested(b):
                res = make_res()
                async with res.borrow(a=2) as share:
                    block = share.borrow(a=1)
                    await b.probe('%s nested borrow enter' % kind, lambda: block.__aenter__())
                    await b.probe('%s nested borrow exit' % kind,
                                  lambda: block.__aexit__(None, None, None))

            async def borrow_released_in_step(b):
                res = make_res()
                holder = res.borrow(a=3)
                await holder.__aenter__()
                b.scope.do(_release_later(holder, 0))
                block = res.borrow(a=1)
                await b.probe('%s.borrow enter[released in this time step]' % kind,
                              lambda: block.__aenter__())
                await block.__aexit__(None, None, None)
            async def leave_by_exception(b):
                # giving back also lets the others run when the block is left by an exception
                for how, make in (('borrow', lambda res: res.borrow(a=1)),
                                  ('claim', lambda res: res.claim(a=2))):
                    res = make_res()
                    block = make(res)
                    await block.__aenter__()
                    error = KeyError('left by exception')
                    await b.probe('%s.%s exit[by exception]' % (kind, how),
                                  lambda: block.__aexit__(KeyError, error, None))
                res = make_res()
                async with res.borrow(a=2) as share:
                    block = share.borrow(a=1)
                    await block.__aenter__()
                    error = KeyError('left by exception')
                    await b.probe('%s nested borrow exit[by exception]' % kind,
                                  lambda: block.__aexit__(KeyError, error, None))
            return [('%s.borrow[left by exception]' % kind, leave_by_exception),
                    ('%s.borrow[available]' % kind, borrow_available),
                    ('%s.borrow[zero]' % kind, borrow_zero),
                    ('%s.borrow[all]' % kind, borrow_all),
                    ('%s.claim[available]' % kind, claim_available),
                    ('%s.claim[unavailable]' % kind, claim_unavailable),
                    ('%s nested borrow' % kind, nested),
                    ('%s.borrow[released in step]' % kind, borrow_released_in_step)]
        out.extend(res_cases())

    @add('Resources.increase')
    async def _(b):
        res = Resources(a=1)
        await b.probe('Resources.increase', lambda: res.increase(a=2))
        await b.probe('Resources.increase[zero]', lambda: res.increase(a=0))
        await b.probe('Resources.decrease', lambda: res.decrease(a=1))
        await b.probe('Resources.decrease[zero]', lambda: res.decrease(a=0))
        await b.probe('Resources.set', lambda: res.set(a=5))
        await b.probe('Resources.set[same]', lambda: res.set(a=5))

    # ---- pipes ----
    @add('Pipe.transfer[zero volume]')
    async def _(b):
        pipe = Pipe(throughput=2)
        await b.probe('Pipe.transfer[zero volume]', lambda: pipe.transfer(0))

    @add('Pipe.transfer[zero volume, limit]')
    async def _(b):
        pipe = Pipe(throughput=2)
        await b.probe('Pipe.transfer[zero volume, limit]', lambda: pipe.transfer(0, 1))

    @add('Pipe.transfer[positive]')
    async def _(b):
        pipe = Pipe(throughput=2)
        await b.probe('Pipe.transfer[positive]', lambda: pipe.transfer(1))

    @add('Pipe.transfer[zero volume, congested]')
    async def _(b):
        pipe = Pipe(throughput=1)
        b.scope.do(pipe.transfer(5))
        b.scope.do(pipe.transfer(5))
        await instant
        await b.probe('Pipe.transfer[zero volume, congested]', lambda: pipe.transfer(0))

    @add('UnboundedPipe.transfer')
    async def _(b):
        pipe = UnboundedPipe()
        await b.probe('UnboundedPipe.transfer[zero]', lambda: pipe.transfer(0))
        await b.probe('UnboundedPipe.transfer[positive]', lambda: pipe.transfer(5))
        await b.probe('UnboundedPipe.transfer[zero, limit]', lambda: pipe.transfer(0, 2))
        await b.probe('UnboundedPipe.transfer[positive, inf limit]',
                      lambda: pipe.transfer(5, float('inf')))
        await b.probe('UnboundedPipe.transfer[positive, limit]', lambda: pipe.transfer(4, 2))

    @add('Pipe(inf).transfer')
    async def _(b):
        inf = float('inf')
        pipe = Pipe(throughput=inf)     # a regular pipe that never congests
        await b.probe('Pipe(inf).transfer[zero]', lambda: pipe.transfer(0))
        await b.probe('Pipe(inf).transfer[positive]', lambda: pipe.transfer(5))
        await b.probe('Pipe(inf).transfer[positive, inf limit]', lambda: pipe.transfer(5, inf))
        await b.probe('Pipe(inf).transfer[inf volume]', lambda: pipe.transfer(inf))
        await b.probe('Pipe(inf).transfer[inf volume, inf limit]',
                      lambda: pipe.transfer(inf, inf))
        await b.probe('Pipe(inf).transfer[tiny volume]', lambda: pipe.transfer(5e-324))
        unbounded = UnboundedPipe()
        await b.probe('UnboundedPipe.transfer[inf volume]', lambda: unbounded.transfer(inf))
        await b.probe('UnboundedPipe.transfer[tiny volume, limit]',
                      lambda: unbounded.transfer(5e-324, 4))
        await b.probe('UnboundedPipe.transfer[underflowing quotient]',
                      lambda: unbounded.transfer(1e-200, 1e200))
        await b.probe('UnboundedPipe.transfer[tiny volume]', lambda: unbounded.transfer(5e-324))
        await b.probe('Pipe(inf).transfer[underflowing quotient]',
                      lambda: pipe.transfer(1e-200, 1e200))
        await b.probe('Pipe.transfer[underflowing quotient]',
                      lambda: finite.transfer(1e-200, 1e200) if False else Pipe(2).transfer(1e-320, 1))
        finite = Pipe(throughput=2)
        await b.probe('Pipe.transfer[tiny volume]', lambda: finite.transfer(5e-324))
        await b.probe('Pipe.transfer[positive, inf limit]', lambda: finite.transfer(1, inf))
        await b.probe('Pipe.transfer[positive, huge limit]', lambda: finite.transfer(1, 1e300))

    @add('delays absorbed by the clock')
    async def _(b):
        # a positive span of time that is too small to move the float clock still is a
        # suspension: at an ordinary time with tiny spans, at a huge time with ordinary ones
        for label, span in (('tiny span at time 1', 1e-20), ('span 1 at time 2**53', 1)):
            if span == 1:
                await (time >= 2.0 ** 53)
            else:
                await (time + 1)
            pipe, unbounded = Pipe(throughput=1), UnboundedPipe()
            await b.probe('Pipe.transfer[%s]' % label, lambda: pipe.transfer(span))
            await b.probe('UnboundedPipe.transfer[limit, %s]' % label,
                          lambda: unbounded.transfer(span, 1))
            await b.probe('time + d[%s]' % label, lambda: time + span)
            it = usim.delay(span)
            await b.probe('delay(d) step 1[%s]' % label, lambda: it.__anext__())
            await b.probe('delay(d) step 2[%s]' % label, lambda: it.__anext__())
            await it.aclose()
            it = usim.interval(span)
            await b.probe('interval(d) step 1[%s]' % label, lambda: it.__anext__())
            await it.aclose()

    # ---- tickers ----
    for how in ('interval', 'delay'):
        for period in (0, 1):
            def make(how=how, period=period):
                async def case(b):
                    it = getattr(usim, how)(period)
                    await b.probe('%s(%s) step 1' % (how, period), lambda: it.__anext__())
                    await b.probe('%s(%s) step 2' % (how, period), lambda: it.__anext__())
                    await b.probe('%s(%s) step 3' % (how, period), lambda: it.__anext__())
                    await it.aclose()
                return case
            out.append(('%s(%s)' % (how, period), make()))

    @add('interval(1)[body took exactly one period]')
    async def _(b):
        it = usim.interval(1)
        await it.__anext__()
        await (time + 1)
        await b.probe('interval(1) step[body took exactly one period]', lambda: it.__anext__())
        await (time + 0.5)
        await b.probe('interval(1) step[body took half a period]', lambda: it.__anext__())
        await it.aclose()

    # ---- collect / first ----
    @add('collect[empty]')
    async def _(b):
        await b.probe('collect[empty]', lambda: usim.collect())

    @add('collect[immediate activities]')
    async def _(b):
        await b.probe('collect[immediate activities]', lambda: usim.collect(_noop(), _noop()))

    @add('first[immediate activities]')
    async def _(b):
        it = usim.first(_noop(), _noop(), count=2)
        await b.probe('first step 1', lambda: it.__anext__())
        await b.probe('first step 2', lambda: it.__anext__())
        await b.probe('first step end', lambda: it.__anext__())

    @add('first[count 0]')
    async def _(b):
        it = usim.first(count=0)
        await b.probe('first[empty] end', lambda: it.__anext__())
    return out


async def _aw(awaitable):
    return await awaitable


async def _leave_until(scope):
    try:
        return await scope.__aexit__(None, None, None)
    except BaseException as exc:  # noqa: B902 - the block's own interrupt, suppressed by until
        if not await scope.__aexit__(type(exc), exc, None):
            raise


async def _set_later(flag, delay):
    if delay:
        await (time + delay)
    await flag.set()


async def _put_later(stream, delay):
    if delay:
        await (time + delay)
    await stream.put('m')


async def _release_later(block, delay):
    if delay:
        await (time + delay)
    await block.__aexit__(None, None, None)


PAIRS = None


def all_pairs():
    global PAIRS
    if PAIRS is None:
        PAIRS = pairs()
    return PAIRS


GENERAL = {'quick': 600, 'thorough': 1500}


def n_cases(tier):
    base = len(all_pairs()) * len(KS)
    return (base if tier == 'quick' else base * 40) + GENERAL[tier]


def make_case(seed, index, tier):
    base = len(all_pairs()) * len(KS)
    enumerated = base if tier == 'quick' else base * 40
    if index >= enumerated:
        return {'seed': seed, 'index': index, 'tier': tier, 'general': index - enumerated}
    return {'seed': seed, 'index': index, 'tier': tier, 'pair': (index % base) // len(KS),
            'k': KS[index % len(KS)], 'surround': index // base}


def run_general(case):
    """second family: generated programs over the whole API (states that nobody enumerated:
    shared and observed conditions, contended streams, nested blocks, injected cancellations);
    the interpreter reports every single operation of the statement that completes within the
    activation in which it was issued"""
    from . import common
    rng = random.Random('%s/%s/c20-general' % (case['seed'], case['general']))
    program = Gen(rng, max_roots=4, max_steps=5, max_depth=3,
                  weights={'wait': 14, 'setflag': 8, 'settracked': 6, 'put': 6, 'get': 5,
                           'close': 2, 'transfer': 4, 'resource': 4, 'await_task': 5,
                           'until': 8, 'scope': 6}).program()
    result = common.explore(case, program, rng,
                            lambda mechanism: mechanism.startswith(('c20:', 'harness')),
                            lambda env, sess: bool(sess.stats.get('c20_ops_checked')),
                            quick_injections=4, thorough_victims=2, double=4)
    stats = result['stats']
    result['stats'] = {'general_programs': 1, 'general_ops_checked': stats['c20_ops_checked'],
                       'activations': stats['activations']}
    return result


def run_case(case):
    if 'general' in case:
        return run_general(case)
    name, fn = all_pairs()[case['pair']]
    sess = Session(budget_per_step=50000, budget_total=500000)
    bench = Bench(sess, case['k'])

    async def subject():
        async with Scope() as scope:
            bench.scope = scope
            if case['surround']:
                await (time + random.Random(case['surround']).choice([0, 0, 0.5, 1]))
            await fn(bench)
    root = subject()
    root.__name__ = root.__qualname__ = 'subject'
    roots = [root]
    if case['surround']:
        rng = random.Random('%s/%s/c20' % (case['seed'], case['surround']))
        program = Gen(rng, max_roots=2, max_steps=3, max_depth=2, fail_rate=0).program()
        env = Env(program, sess)
        roots += [activity(env, spec) for spec in program['roots']]
    outcome = sess.run(*roots)
    for coro in roots:
        try:
            coro.close()
        except BaseException:  # noqa: B902
            pass
    violations = [dict(v) for v in sess.violations
                  if v['mechanism'].startswith(('c20:', 'kernel-'))]
    if outcome[0] != 'ok' and not case['surround']:
        violations.append({'mechanism': 'c20:run-failed',
                           'msg': 'pair %s: run() ended with %r' % (name, outcome[1])})
    same = [j for j in bench.judged if j[1] == 'same-time']
    stats = {'pairs_judged': len(bench.judged), 'same_time_completions': len(same),
             'raised_not_judged': sum(1 for j in bench.judged if j[1].startswith('raised')),
             'time_advanced': sum(1 for j in bench.judged if j[1] == 'time-advanced'),
             'operations': {j[0]: 1 for j in bench.judged}}
    for vio in violations:
        vio['case'] = dict(case, name=name)
    sample = None
    if case['index'] % 37 == 0 and case['index'] < 600:
        sample = {'pair': name, 'k': case['k'],
                  'judged': [[j[0], j[1], j[2]] for j in bench.judged],
                  'spinner_turns': bench.turns}
    sigs = ['%s|%d|%d' % (j[0], case['k'], case['surround']) for j in same]
    return {'evals': max(1, len(bench.judged)), 'sigs': sigs, 'stats': stats,
            'violations': violations, 'sample': sample}
