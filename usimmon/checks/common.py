"""Shared driver: execute a program un-injected, then with cancellations injected at
activation boundaries (sampled or enumerated), and collect what the monitors reported."""
from ..prog import execute
from ..probe import Session

KERNEL = 'kernel-'


def one_run(program, plan=None):
    sess = Session()

    def prepare(env):
        if plan:
            for n, name in plan:
                def action(s, name=name, env=env, n=n):
                    task = env.tasks.get(name)
                    if task is not None:
                        s.stats['injected'] += 1
                        # the same token every time: repeated cancels are indistinguishable
                        env.note_cancel(task, ('injected',))
                        task.cancel('injected')
                    else:
                        s.stats['inject_no_victim'] += 1
                sess.at_boundary(n, action)
    env, outcome = execute(program, sess, prepare)
    return env, sess


STAT_KEYS = ('owner_checked', 'exceptions_observed', 'injected', 'due_checked', 'scheduled',
             'inject_no_victim', 'spawn_refused', 'scope_exits', 'normal_exits',
             'c05_blocks_checked', 'c05_failing_blocks', 'c05_foreign_signal_exits',
             'c05_blocks_tainted', 'containment_events_checked', 'c06_status_changes',
             'c06_samples', 'c06_cancels_judged', 'c06_cancel_before_start',
             'c06_cancel_running', 'c06_awaits', 'cleanup_spawns', 'graceful_cleanups', 'failed_while_closed',
             'c06_cancel_seen_cleanup_pending', 'c06_pending_awaits_checked',
             'watchers:task', 'watchers:notif', 'watchers_refused', 'c06_failures_followed', 'c06_results_followed', 'c20_ops_checked', 'prepared_early', 'self_cancels', 'nested_runs', 'cancelled_at_once', 'cleanup_cancels', 'manual_blocks', 'phases', 'c06_repeated_cancels_judged')


def explore(case, program, rng, relevant, nontrivial, quick_injections=6,
            thorough_victims=3, double=10, sample_index=16, extra_stats=None):
    """reference run + injected runs; ``relevant(mechanism)`` selects the monitors that
    decide the calling check's property, ``nontrivial(env, sess)`` marks executions that count"""
    queue = [case['plan']] if case.get('plan') is not None else [None]
    violations = []
    sigs = []
    stats = {'activations': 0, 'outcomes': {}, 'ops': {}, 'other_monitor_reports': {}}
    for key in STAT_KEYS:
        stats[key] = 0
    evals = 0
    sample = None
    first = True
    while queue:
        plan = queue.pop(0)
        env, sess = one_run(program, plan)
        evals += 1
        stats['activations'] += sess.n
        for key in STAT_KEYS:
            stats[key] += sess.stats.get(key, 0)
        for key, value in sess.stats.items():
            if key.startswith('op:'):
                stats['ops'][key[3:]] = stats['ops'].get(key[3:], 0) + value
        if extra_stats:
            extra_stats(env, sess, stats)
        out = env.outcome if env.outcome in ('ok', 'abort') else 'exception'
        stats['outcomes'][out] = stats['outcomes'].get(out, 0) + 1
        if nontrivial(env, sess):
            sigs.append(sess.signature())
        for vio in sess.violations:
            if relevant(vio['mechanism']):
                vio = dict(vio)
                vio['case'] = dict(case, plan=plan)
                violations.append(vio)
            else:
                other = stats['other_monitor_reports']
                other[vio['mechanism']] = other.get(vio['mechanism'], 0) + 1
        if first:
            first = False
            if case.get('plan') is None:
                total = sess.n
                names = sorted(env.tasks)
                if names and total:
                    if case.get('tier') == 'thorough':
                        for name in rng.sample(names, min(thorough_victims, len(names))):
                            for n in range(1, total + 2):
                                queue.append([[n, name]])
                        if len(queue) > 300:
                            # a very long program: every boundary of it is too much for one
                            # case - an even sample of its boundaries instead
                            queue = rng.sample(queue, 300)
                            stats['boundary_sampled_cases'] = 1
                        for _ in range(min(double, total)):
                            queue.append([[rng.randint(1, total + 1), rng.choice(names)],
                                          [rng.randint(1, total + 1), rng.choice(names)]])
                    else:
                        for _ in range(min(quick_injections, total)):
                            queue.append([[rng.randint(1, total + 1), rng.choice(names)]])
                        for _ in range(min(2, quick_injections, total)):
                            # the same victim twice (second strike during its shutdown)
                            victim = rng.choice(names)
                            first_n = rng.randint(1, total + 1)
                            queue.append([[first_n, victim],
                                          [first_n + rng.randint(1, 6), victim]])
            if sample is None and case.get('index', 99) < sample_index:
                sample = {'program': program, 'outcome': env.outcome,
                          'events': [list(map(str, ev)) for ev in sess.events[:25]],
                          'activations': sess.n}
    return {'evals': evals, 'sigs': sigs, 'stats': stats, 'violations': violations,
            'sample': sample}
