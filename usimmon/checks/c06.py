"""C06 - task lifecycle: forward-only status, stable result, precise cancellation"""
import random

from .. import bootstrap  # noqa: F401
from ..gen import Gen
from . import common

PROPERTY = 'C06'
LEVEL = 'fault_enumeration'
RULE = (
    'random programs whose child tasks have payloads over all primitives (sleeping, inside a '
    'lock, waiting on a queue/channel, acquiring/holding/releasing a borrow, nested scopes with '
    'children, inside until, pipe transfers, tickers, finishing immediately, delayed start, bodies '
    'with an asynchronous clean-up that takes time and can be struck again) '
    'with 0-4 awaiters attached before/at/after completion and program-level cancels; '
    'cancel-point enumeration: cancel(token) of a victim injected at activation boundary n '
    '(quick: sampled n; thorough: every n in [1, N+1] x 3 victims, plus double cancels with '
    'different tokens). Monitors: status of every task sampled at every boundary (forward-only '
    'automaton); every awaiter outcome recorded (identity); cancel before first activation => '
    'payload never logs; cancel while suspended => by the end of that time step the task is done '
    'or (asynchronous clean-up) the cancellation has been raised in it in that step; TaskCancelled.subject/token; no activity is still suspended in `await task` at the end of a time step in which the task is done; a plain Scope is never '
    'aborted without a failing child. non-trivial = >= 1 cancel judged; distinct = trace'
)
RULE = RULE + (' Further: a task of a finished simulation cancelled by a later one, tasks due at a date (also date 0 on a negative clock) cancelled before it - none of their code runs before their start date, exception instances as results, every cancel() of a surviving task is delivered.')

LEVEL_TEXT = (
    'Fault enumeration by runtime monitoring: cancel() is injected at every activation boundary '
    'of generated programs (thorough) while a lifecycle monitor samples Task.status at every '
    'boundary and records what every awaiter receives. Held = no divergence on the executions '
    'explored.')
TECHNIQUE = 'runtime monitoring: status automaton sampled at activation boundaries + awaiter-outcome log, cancel injection at every boundary'
ASSUMPTIONS = [
    'a cancel() that races with the normal completion of the task in the same time step may '
    'lose: the task must be done at the end of that time step either way',
    'payloads never swallow CancelTask (valid programs only)',
]
REQUIRED_STATS = ['c06_samples', 'c06_cancels_judged', 'c06_cancel_before_start',
                  'graceful_cleanups', 'c06_cancel_seen_cleanup_pending',
                  'c06_cancel_running', 'c06_awaits', 'c06_pending_awaits_checked', 'injected']

WEIGHTS = {
    'scope': 14, 'until': 5, 'spawn': 4, 'raise': 1.2, 'cancel': 8, 'await_task': 12,
    'wait': 10, 'setflag': 3, 'settracked': 2, 'lock': 4, 'put': 3, 'get': 3, 'iter': 1,
    'close': 0.5, 'borrow': 4, 'resource': 1, 'transfer': 3, 'ticker': 2, 'collect': 2,
    'first': 1, 'graceful': 6,
}


def n_cases(tier):
    return 1500 if tier == 'quick' else 9000


def make_case(seed, index, tier):
    return {'seed': seed, 'index': index, 'tier': tier}


def withdrawn_by_cleanup(rng):
    """a block is aborted right after it spawned a task; the clean-up of an older sibling, run
    while the block closes its children, cancels that task before it ever started"""
    delay = rng.choice([0, 0.5, 1, 2])
    body = []
    if delay:
        body.append({'op': 'wait', 'n': {'k': 'delay', 'd': delay}, 'id': 's1'})
    body.append({'op': 'spawn', 'id': 's2', 'scope': 's8', 'child': {
        'name': 'late', 'volatile': rng.random() < 0.3,
        'steps': [{'op': 'wait', 'n': {'k': 'delay', 'd': 1}, 'id': 's3'}]}})
    body.append({'op': 'raise', 'kind': rng.choice(['err', 'key', 'eq']), 'tag': 'e1',
                 'id': 's4'})
    early = {'name': 'early', 'volatile': rng.random() < 0.3, 'steps': [
        {'op': 'guard', 'id': 's5', 'cancel': 'late',
         'body': [{'op': 'wait', 'n': {'k': 'delay', 'd': 100}, 'id': 's6'}],
         'child': {'name': 'successor', 'volatile': False, 'steps': []}}]}
    steps = [{'op': 'try', 'id': 's7', 'body': [
        {'op': 'scope', 'id': 's8', 'n': None, 'catch': False, 'children': [early],
         'body': body}]}]
    for _ in range(rng.randint(0, 2)):
        steps.append({'op': 'await_task', 'task': 'late', 'catch': True, 'id': 's%d' % (
            9 + len(steps))})
    steps.append({'op': 'wait', 'n': {'k': 'delay', 'd': 1}, 'id': 's20'})
    return {'objects': {}, 'roots': [{'name': 'r0', 'steps': steps}], 'start': 0, 'till': None}


def across_runs(case):
    """a task that is still suspended when its simulation runs dry lives on: a later simulation
    cancels it - in that time step the cancellation is raised in it, awaiters of both simulations'
    making get TaskCancelled(task, token), its status is CANCELLED and stays so"""
    import usim
    from usim import time, Scope, TaskCancelled, TaskState, CancelTask
    from ..probe import Session
    rng = random.Random('%s/%s/c06runs' % (case['seed'], case['index']))
    violations = []
    log, seen, tasks = [], [], []
    flag = usim.Flag()
    queue = usim.Queue()
    # (not generated: a task suspended at a kernel break point - `await flag`, `await queue`,
    # a contended lock, `time + d` - of the simulation that ended. The unchanged library refuses to resume those from another
    # simulation ("Break points cannot be passed to other coroutines"), see DESIGN 11.3)
    how = rng.choice(['eternity', 'eternity', 'nested-scope'])
    lock = usim.Lock()

    def vio(mechanism, msg):
        violations.append({'mechanism': 'c06:' + mechanism, 'case': dict(case),
                           'msg': 'task suspended (%s) when its simulation ran dry, cancelled '
                                  'by a later simulation: %s' % (how, msg)})

    async def worker():
        try:
            if how == 'eternity':
                await usim.eternity
            elif how == 'flag':
                await flag
            elif how == 'queue':
                await queue
            elif how == 'lock-waiter':
                async with lock:
                    await usim.eternity
            else:
                async with Scope() as inner:
                    inner.do(idle())
                    await usim.eternity
        except CancelTask as err:
            log.append(('cancelled', time.now, err.token))
            raise

    async def idle():
        await usim.eternity

    async def awaiter(task, name):
        try:
            await task
            seen.append((name, time.now, 'returned'))
        except TaskCancelled as err:
            seen.append((name, time.now, err.subject is task, err.args))

    async def first():
        async with Scope() as scope:
            if how == 'lock-waiter':
                scope.do(holder())
            tasks.append(scope.do(worker()))
            if rng.random() < 0.5:
                scope.do(awaiter(tasks[0], 'awaiter of the first simulation'))

    async def holder():
        async with lock:
            await usim.eternity

    sess1 = Session()
    first_root = first()
    outcome1 = sess1.run(first_root, start=rng.choice([0, 3]))
    stats = {'c06_cancels_judged': 0, 'c06_samples': 0, 'c06_cancel_before_start': 0,
             'graceful_cleanups': 0, 'c06_cancel_seen_cleanup_pending': 0, 'c06_cancel_running': 0,
             'c06_awaits': 0, 'c06_pending_awaits_checked': 0, 'injected': 0,
             'cancelled_by_a_later_simulation': 1, 'activations': sess1.n}
    if outcome1[0] != 'ok' or not tasks or tasks[0].status is not TaskState.RUNNING:
        vio('harness-error', 'first simulation: %r, %s' % (outcome1, tasks and tasks[0].status))
        return {'evals': 1, 'sigs': [], 'stats': stats, 'violations': violations, 'sample': None}
    task = tasks[0]
    token = 'late-%d' % case['index']
    delay = rng.choice([0, 5])
    start = rng.choice([0, 100])
    checks = []

    async def second():
        async with Scope() as scope:
            if rng.random() < 0.7:
                scope.do(awaiter(task, 'early awaiter'))
            if delay:
                await (time + delay)
            checks.append(('before', task.status))
            task.cancel(token)
            await (time + 1)
            checks.append(('a time step later', task.status))
            scope.do(awaiter(task, 'late awaiter'))
            task.cancel('again')
    sess2 = Session()
    second_root = second()
    outcome2 = sess2.run(second_root, start=start)
    stats['activations'] += sess2.n
    stats['c06_cancels_judged'] += 1
    stats['c06_cancel_running'] += 1
    stats['c06_awaits'] += len(seen)
    for sess in (sess1, sess2):
        violations += [dict(v, case=dict(case)) for v in sess.violations
                       if v['mechanism'].startswith('kernel-')]
    at = start + delay
    if outcome2[0] != 'ok':
        vio('run-failed', 'second simulation ended with %r' % (outcome2[1],))
    elif checks != [('before', TaskState.RUNNING), ('a time step later', TaskState.CANCELLED)] \
            or task.status is not TaskState.CANCELLED:
        vio('cancel-not-effective-in-time-step', 'status %s, finally %s' % (checks, task.status))
    elif log != [('cancelled', at, (token,))]:
        vio('cancel-not-effective-in-time-step',
            'the task logged %s, expected the cancellation with token %r at %r' % (log, token, at))
    else:
        for entry in seen:
            want_time = at + 1 if entry[0] == 'late awaiter' else at
            if entry[1:] != (want_time, True, (token,)):
                vio('awaiters-disagree', '%s saw %s, expected TaskCancelled(task, %r) at %r' % (
                    entry[0], entry[1:], token, want_time))
        if 'late awaiter' not in [entry[0] for entry in seen]:
            vio('awaiter-not-woken', 'awaiters seen: %s' % (seen,))
    for root in (first_root, second_root):
        try:
            root.close()
        except BaseException:  # noqa: B902  (tearing down what is left, outside of any run)
            pass
    return {'evals': 2, 'sigs': [sess2.signature()], 'stats': stats, 'violations': violations,
            'sample': None}


def cancelled_before_its_date(rng):
    """tasks that are to start at a date (also the date 0, with the clock still below zero) or
    after a delay are cancelled before that: none of their code runs"""
    start = rng.choice([-5, -3, -0.5, 0, 2])
    children = []
    for number, (key, value) in enumerate([('at', 0), ('at', start + 4), ('after', 4),
                                           ('at', 0.0)]):
        if key == 'at' and value <= start:
            continue
        children.append({'name': 'late%d' % number, 'volatile': False, key: value, 'steps': [
            {'op': 'wait', 'n': {'k': 'delay', 'd': 1}, 'id': 'l%d' % number}]})
    body = [{'op': 'wait', 'n': {'k': 'delay', 'd': rng.choice([0.25, 0.5])}, 'id': 'b0'}]
    for position, child in enumerate(children):
        body.append({'op': 'cancel', 'task': child['name'], 'id': 'c%d' % position,
                     'yield': rng.random() < 0.5})
    body.append({'op': 'wait', 'n': {'k': 'delay', 'd': 6}, 'id': 'b1'})
    for position, child in enumerate(children):
        body.append({'op': 'await_task', 'task': child['name'], 'catch': True,
                     'id': 'a%d' % position})
    steps = [{'op': 'scope', 'id': 's0', 'n': None, 'catch': False, 'children': children,
              'body': body}]
    return {'objects': {}, 'roots': [{'name': 'r0', 'steps': steps}], 'start': start,
            'till': None}


def build(case):
    rng = random.Random('%s/%s/c06' % (case['seed'], case['index']))
    if case['index'] % 25 == 24:
        return withdrawn_by_cleanup(rng), rng
    if case['index'] % 25 == 22:
        return cancelled_before_its_date(rng), rng
    gen = Gen(rng, weights=WEIGHTS, max_depth=3, max_steps=4, max_roots=3,
              start_times=(0, 0, 0, -2, -0.5, 0.5))
    return gen.program(), rng


def relevant(mechanism):
    # cancelling a finished task "does nothing": a cancellation that is still delivered shows up
    # as a signal thrown into a finished runner (kernel monitors / run() failing with misuse)
    return mechanism.startswith(('c06:', 'c05:aborted-without-failure', 'harness', 'kernel-',
                                 'run-ended-with-coroutine-misuse'))


def nontrivial(env, sess):
    return bool(sess.stats.get('c06_cancels_judged'))


def run_case(case):
    if case['index'] % 25 == 23:
        return across_runs(case)
    program, rng = build(case)
    return common.explore(case, program, rng, relevant, nontrivial, quick_injections=8)
