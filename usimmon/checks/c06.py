"""C06 - task lifecycle: forward-only status, stable result, precise cancellation"""
import random

from .. import bootstrap  # noqa: F401
from ..gen import Gen
from . import common

PROPERTY = 'C06'
LEVEL = 'fault_enumeration'
RULE = (
    'random programs whose child tasks have payloads over all primitives (sleeping, inside a '
    'lock, waiting on a queue/channel, acquiring/holding/releasing a borrow, nested scopes with '
    'children, inside until, pipe transfers, tickers, finishing immediately, delayed start, bodies '
    'with an asynchronous clean-up that takes time and can be struck again) '
    'with 0-4 awaiters attached before/at/after completion and program-level cancels; '
    'cancel-point enumeration: cancel(token) of a victim injected at activation boundary n '
    '(quick: sampled n; thorough: every n in [1, N+1] x 3 victims, plus double cancels with '
    'different tokens). Monitors: status of every task sampled at every boundary (forward-only '
    'automaton); every awaiter outcome recorded (identity); cancel before first activation => '
    'payload never logs; cancel while suspended => by the end of that time step the task is done '
    'or (asynchronous clean-up) the cancellation has been raised in it in that step; TaskCancelled.subject/token; no activity is still suspended in `await task` at the end of a time step in which the task is done; a plain Scope is never '
    'aborted without a failing child. non-trivial = >= 1 cancel judged; distinct = trace'
)
LEVEL_TEXT = (
    'Fault enumeration by runtime monitoring: cancel() is injected at every activation boundary '
    'of generated programs (thorough) while a lifecycle monitor samples Task.status at every '
    'boundary and records what every awaiter receives. Held = no divergence on the executions '
    'explored.')
TECHNIQUE = 'runtime monitoring: status automaton sampled at activation boundaries + awaiter-outcome log, cancel injection at every boundary'
ASSUMPTIONS = [
    'a cancel() that races with the normal completion of the task in the same time step may '
    'lose: the task must be done at the end of that time step either way',
    'payloads never swallow CancelTask (valid programs only)',
]
REQUIRED_STATS = ['c06_samples', 'c06_cancels_judged', 'c06_cancel_before_start',
                  'graceful_cleanups', 'c06_cancel_seen_cleanup_pending',
                  'c06_cancel_running', 'c06_awaits', 'c06_pending_awaits_checked', 'injected']

WEIGHTS = {
    'scope': 14, 'until': 5, 'spawn': 4, 'raise': 1.2, 'cancel': 8, 'await_task': 12,
    'wait': 10, 'setflag': 3, 'settracked': 2, 'lock': 4, 'put': 3, 'get': 3, 'iter': 1,
    'close': 0.5, 'borrow': 4, 'resource': 1, 'transfer': 3, 'ticker': 2, 'collect': 2,
    'first': 1, 'graceful': 6,
}


def n_cases(tier):
    return 1500 if tier == 'quick' else 3000


def make_case(seed, index, tier):
    return {'seed': seed, 'index': index, 'tier': tier}


def withdrawn_by_cleanup(rng):
    """a block is aborted right after it spawned a task; the clean-up of an older sibling, run
    while the block closes its children, cancels that task before it ever started"""
    delay = rng.choice([0, 0.5, 1, 2])
    body = []
    if delay:
        body.append({'op': 'wait', 'n': {'k': 'delay', 'd': delay}, 'id': 's1'})
    body.append({'op': 'spawn', 'id': 's2', 'scope': 's8', 'child': {
        'name': 'late', 'volatile': rng.random() < 0.3,
        'steps': [{'op': 'wait', 'n': {'k': 'delay', 'd': 1}, 'id': 's3'}]}})
    body.append({'op': 'raise', 'kind': rng.choice(['err', 'key', 'eq']), 'tag': 'e1',
                 'id': 's4'})
    early = {'name': 'early', 'volatile': rng.random() < 0.3, 'steps': [
        {'op': 'guard', 'id': 's5', 'cancel': 'late',
         'body': [{'op': 'wait', 'n': {'k': 'delay', 'd': 100}, 'id': 's6'}],
         'child': {'name': 'successor', 'volatile': False, 'steps': []}}]}
    steps = [{'op': 'try', 'id': 's7', 'body': [
        {'op': 'scope', 'id': 's8', 'n': None, 'catch': False, 'children': [early],
         'body': body}]}]
    for _ in range(rng.randint(0, 2)):
        steps.append({'op': 'await_task', 'task': 'late', 'catch': True, 'id': 's%d' % (
            9 + len(steps))})
    steps.append({'op': 'wait', 'n': {'k': 'delay', 'd': 1}, 'id': 's20'})
    return {'objects': {}, 'roots': [{'name': 'r0', 'steps': steps}], 'start': 0, 'till': None}


def build(case):
    rng = random.Random('%s/%s/c06' % (case['seed'], case['index']))
    if case['index'] % 25 == 24:
        return withdrawn_by_cleanup(rng), rng
    gen = Gen(rng, weights=WEIGHTS, max_depth=3, max_steps=4, max_roots=3)
    return gen.program(), rng


def relevant(mechanism):
    # cancelling a finished task "does nothing": a cancellation that is still delivered shows up
    # as a signal thrown into a finished runner (kernel monitors / run() failing with misuse)
    return mechanism.startswith(('c06:', 'c05:aborted-without-failure', 'harness', 'kernel-',
                                 'run-ended-with-coroutine-misuse'))


def nontrivial(env, sess):
    return bool(sess.stats.get('c06_cancels_judged'))


def run_case(case):
    program, rng = build(case)
    return common.explore(case, program, rng, relevant, nontrivial, quick_injections=8)
