"""C07 - until()/run(till) end the block exactly when the notification fires, else never"""
import copy
import json
import random

from .. import bootstrap  # noqa: F401
from ..models import until as model
from ..prog import execute
from ..probe import Session

PROPERTY = 'C07'
LEVEL = 'exploration'
RULE = (
    'scenarios: one driver changes flags / a tracked value (one change per virtual time), helper '
    'tasks finish at known times, a subject activity enters until(n) blocks (also nested, equal '
    'and different deadlines) with bodies of 0-4 waits and 0-3 children, then continues; n from '
    '{time+d, >=, ==, < with dates before/at/after entry, instant, eternity, flag (set before '
    'entry / later / reset), ~flag, tracked comparison, task.done of running/finished tasks, '
    'a&b, a|b, nested mixed connectives, ~(...)}. Oracle: block end = min(trigger time from the '
    'independent model, completion time measured in a reference run of the same program with '
    'that notification replaced by eternity); no exception leaves the block; no event of body '
    'or children after the end; when the block completes first the continuation equals the '
    'reference run. Second family: run(till=T) for T in {start, grid, beyond completion}: no '
    'scenario activity is activated at a time > T. non-trivial = a judged block that was ended '
    'by its notification; distinct = activation trace'
)
RULE = RULE + (' Further scenarios: conditions (8 shapes) that served an earlier simulation, date conditions across an aborted simulation, blocks whose body uses its own notification object again (6 uses), bodies suspended in a wait of a primitive (13 kinds) that completes in the time step of the notification.')

LEVEL_TEXT = (
    'Exploration by runtime monitoring with a reference model: the virtual time at which the '
    'real code leaves each until-block is compared with min(model trigger time, measured '
    'completion time), over thousands of generated scenarios covering every notification kind '
    'incl. already-true, impossible and nested connectives.')
TECHNIQUE = 'runtime monitoring: logged block-exit times vs trigger-time model + differential reference run (notification replaced by eternity)'
ASSUMPTIONS = [
    'one atom change per virtual time, so the notification\'s truth at a time step is unambiguous',
    'if the entry coincides with a change that makes the notification false again, both '
    'readings are accepted',
]
REQUIRED_STATS = ['blocks_judged', 'ended_by_trigger', 'completed_first', 'till_runs']

GRID = [0.5, 1, 1.5, 2, 2.5, 3, 3.5, 4, 5, 6]
# inexact decimal dates among which  n + (d - n) != d  for many pairs n < d (see C08)
DEC = [0.7, 0.8, 1.2, 2.9, 3.4, 3.9, 4.8, 5.3, 6.1]


def n_cases(tier):
    return 4000 if tier == 'quick' else 80000


def make_case(seed, index, tier):
    return {'seed': seed, 'index': index, 'tier': tier}


class Ids:
    def __init__(self):
        self.n = 0

    def __call__(self, prefix):
        self.n += 1
        return '%s%d' % (prefix, self.n)


def gen_cond(rng, tasks, depth=0):
    kinds = ['ge', 'ge', 'eq', 'lt', 'flag', 'flag', 'flag', 'tracked', 'tracked', 'done',
             'instant', 'eternity']
    if depth < 3:
        kinds += ['and', 'or', 'and', 'or', 'inv']
    kind = rng.choice(kinds)
    if kind in ('ge', 'eq', 'lt'):
        return {'k': kind, 't': rng.choice(DEC if getattr(rng, 'decimal', False)
                                           else [0, 0.5, 1, 1.5, 2, 2.5, 3, 4, 5, 7])}
    if kind in ('instant', 'eternity'):
        return {'k': kind}
    if kind == 'flag':
        return {'k': 'flag', 'f': rng.randrange(3), 'neg': rng.random() < 0.3}
    if kind == 'tracked':
        spec = {'k': 'tracked', 'i': 0, 'cmp': rng.choice(['lt', 'le', 'eq', 'ne', 'ge', 'gt']),
                'v': rng.randint(0, 3) if rng.random() < 0.7 else {'i': 1}}
        # (the negation of a comparison is a comparison object of its own)
        return {'k': 'inv', 'a': spec} if rng.random() < (
            0.5 if isinstance(spec['v'], dict) else 0.2) else spec
    if kind == 'done':
        if not tasks:
            return {'k': 'flag', 'f': 0, 'neg': False}
        return {'k': 'done', 'task': rng.choice(tasks), 'neg': rng.random() < 0.25}
    if kind in ('and', 'or'):
        return {'k': kind, 'a': [gen_cond(rng, tasks, depth + 1)
                                 for _ in range(rng.randint(2, 3))]}
    sub = gen_cond(rng, tasks, depth + 1)
    while not invertible(sub):
        sub = gen_cond(rng, tasks, depth + 1)
    return {'k': 'inv', 'a': sub}


def invertible(spec):
    if spec['k'] == 'eq':
        return False
    if spec['k'] in ('and', 'or'):
        return all(invertible(sub) for sub in spec['a'])
    if spec['k'] == 'inv':
        return invertible(spec['a'])
    return True


def gen_notif(rng, tasks, shared=None):
    if rng.random() < 0.2:
        delay = rng.choice([0, 0.5, 1, 2, 3])
        return {'k': 'delay', 'd': delay} if delay else {'k': 'instant'}
    if shared is not None and rng.random() < 0.35:
        # the very same notification object is used by several blocks / waits of the program
        if len(shared) < 3 and (not shared or rng.random() < 0.5):
            spec = gen_cond(rng, tasks)
            spec['share'] = 'n%d' % len(shared)
            shared.append(spec)
        return dict(rng.choice(shared))
    return gen_cond(rng, tasks)


def waits(rng, ids, count):
    return [{'op': 'wait', 'n': rng.choice([{'k': 'delay', 'd': rng.choice([0.5, 1, 1.5, 2])},
                                              {'k': 'instant'}]), 'id': ids('w')}
            for _ in range(count)]


def gen_block(rng, ids, tasks, depth, shared=None):
    step = {'op': 'scope', 'id': ids('b'), 'n': gen_notif(rng, tasks, shared), 'catch': False,
            'children': [], 'body': []}
    for _ in range(rng.choice([0, 0, 1, 2, 3])):
        child = {'name': ids('t'), 'volatile': rng.random() < 0.25,
                 'steps': waits(rng, ids, rng.randint(0, 3))}
        if rng.random() < 0.2:
            child['after'] = rng.choice([0.5, 1])
        step['children'].append(child)
    body = waits(rng, ids, rng.randint(0, 3))
    if depth < 2 and rng.random() < 0.3:
        body.insert(rng.randint(0, len(body)), gen_block(rng, ids, tasks, depth + 1, shared))
    if rng.random() < 0.1:
        body.append({'op': 'wait', 'n': {'k': 'eternity'}, 'id': ids('w')})
    elif rng.random() < 0.25 or '"i": 1' in json.dumps(step['n']):
        # a body that outlasts every change of the scenario: only the notification can end it
        body.append({'op': 'wait', 'n': {'k': 'delay', 'd': 7}, 'id': ids('w')})
    if rng.random() < 0.12:
        # the body fails at some point (possibly before its first suspension); caught outside
        body.insert(rng.randint(0, len(body)),
                    {'op': 'raise', 'kind': 'err', 'tag': ids('e'), 'id': ids('x')})
        step['body'] = body
        return {'op': 'try', 'id': ids('y'), 'body': [step]}
    step['body'] = body
    return step


def build(case):
    rng = random.Random('%s/%s/c07' % (case['seed'], case['index']))
    ids = Ids()
    objects = {'flags': 3, 'tracked': [0, 2]}
    # a fifth of the scenarios live on an inexact decimal time grid
    rng.decimal = case['index'] % 5 == 2
    grid = DEC if rng.decimal else GRID
    times = rng.sample(grid, rng.randint(2, 6))
    times.sort()
    n_tasks = rng.randint(0, 2)
    task_times = times[:n_tasks]
    rng.shuffle(times)
    task_times = sorted(times[:n_tasks])
    change_times = sorted(times[n_tasks:])
    tasks = ['T%d' % index for index in range(n_tasks)]
    changes = []
    driver = []
    state_flags = [False] * 3
    tracked = 0
    # some helper tasks never get to run: they are to start late and the driver cancels them
    # before that - their `done` turns true at the time of the cancel
    prestart = {name: when for name, when in zip(tasks, task_times) if rng.random() < 0.3}
    agenda = [(when, 'change', None) for when in change_times]
    agenda += [(when, 'cancel', name) for name, when in prestart.items()]
    for when, what, name in sorted(agenda):
        driver.append({'op': 'wait', 'n': {'k': 'ge', 't': when}, 'id': ids('d')})
        if what == 'cancel':
            driver.append({'op': 'cancel', 'task': name, 'yield': False, 'id': ids('d')})
            continue
        if rng.random() < 0.65:
            flag = rng.randrange(3)
            value = not state_flags[flag] if rng.random() < 0.8 else state_flags[flag]
            state_flags[flag] = value
            driver.append({'op': 'setflag', 'f': flag, 'v': value, 'id': ids('d'),
                           'via_inverse': rng.random() < 0.25})
            changes.append({'t': when, 'what': 'flag', 'i': flag, 'v': value})
        else:
            tracked = rng.randint(0, 3)
            which = 0 if rng.random() < 0.5 else 1      # (1 is only ever a right-hand side)
            driver.append({'op': 'settracked', 'i': which, 'v': tracked, 'id': ids('d')})
            changes.append({'t': when, 'what': 'tracked', 'i': which, 'v': tracked})
    roots = []
    if tasks:
        children = []
        for name, when in zip(tasks, task_times):
            children.append({'name': name, 'volatile': False, 'steps': [
                {'op': 'wait', 'n': {'k': 'delay', 'd': when}, 'id': ids('h')}]})
            if name in prestart:
                children[-1]['at'] = 50         # never reached: cancelled before its start
            changes.append({'t': when, 'what': 'done', 'task': name})
        roots.append({'name': 'helpers', 'steps': [
            {'op': 'scope', 'id': ids('hs'), 'n': None, 'catch': False, 'children': children,
             'body': []}]})
    roots.append({'name': 'driver', 'steps': driver})
    shared = []
    n_subjects = rng.choice([1, 1, 2, 3])
    for number in range(n_subjects):
        steps = []
        entry = rng.choice([0, 0.7, 0.8, 1.2, 2.9] if rng.decimal else [0, 0, 0.5, 1, 1.5, 2, 3])
        steps.append({'op': 'wait', 'n': {'k': 'ge', 't': entry} if entry else {'k': 'instant'},
                      'id': ids('w')})
        if rng.random() < 0.15:
            # re-use scenario: the very same connective guards two attempts; the first is left
            # before it ever suspends (its body fails at once, or an outer block that already
            # fired abandons it), the second must still be ended by the connective
            guard = {'k': rng.choice(['and', 'or']),
                     'a': [gen_cond(rng, tasks, 2) for _ in range(rng.randint(2, 3))],
                     'share': 'g%d' % number}
            early = {'op': 'scope', 'id': ids('b'), 'n': dict(guard), 'catch': False,
                     'children': [], 'body': [{'op': 'raise', 'kind': 'err', 'tag': ids('e'),
                                               'id': ids('x')}]}
            if rng.random() < 0.5:
                steps.append({'op': 'try', 'id': ids('y'), 'body': [early]})
            else:
                early['body'] = waits(rng, ids, 1)
                steps.append({'op': 'scope', 'id': ids('b'), 'n': {'k': 'instant'},
                              'catch': False, 'children': [], 'body': [early]})
            steps += waits(rng, ids, rng.randint(0, 2))
            steps.append({'op': 'scope', 'id': ids('b'), 'n': dict(guard), 'catch': False,
                          'children': [], 'body': [
                              {'op': 'wait', 'n': {'k': 'delay', 'd': rng.choice([3, 6, 10])},
                               'id': ids('w')}]})
            steps += waits(rng, ids, 1)
        steps.append(gen_block(rng, ids, tasks, 0, shared))
        steps += waits(rng, ids, rng.randint(1, 3))
        for _ in range(rng.choice([0, 0, 1, 1, 2])):
            steps.append(gen_block(rng, ids, tasks, 1, shared))
            steps += waits(rng, ids, 1)
        roots.append({'name': 'subject%d' % number, 'steps': steps})
    if rng.random() < 0.12:
        # a task that is cancelled before its first activation, by the body of a block that
        # waits for it: spawned by `spawner` in the turn before the subject enters
        # until(task.done) and cancels it - the block ends in that same time step
        unused = [when for when in grid if when not in times]
        if unused:
            when = rng.choice(unused)
            roots.insert(0, {'name': 'spawner', 'steps': [
                {'op': 'wait', 'n': {'k': 'ge', 't': when}, 'id': ids('d')},
                {'op': 'scope', 'id': ids('ps'), 'n': None, 'catch': False, 'children': [
                    {'name': 'TP', 'volatile': False, 'steps': [
                        {'op': 'wait', 'n': {'k': 'delay', 'd': 1}, 'id': ids('h')}]}],
                 'body': [{'op': 'wait', 'n': {'k': 'delay', 'd': 8}, 'id': ids('d')}]}]})
            changes.append({'t': when, 'what': 'done', 'task': 'TP'})
            roots.append({'name': 'subjectP', 'steps': [
                {'op': 'wait', 'n': {'k': 'ge', 't': when}, 'id': ids('w')},
                {'op': 'scope', 'id': ids('b'), 'n': {'k': 'done', 'task': 'TP', 'neg': False},
                 'catch': False, 'children': [], 'body': [
                     {'op': 'cancel', 'task': 'TP', 'yield': False, 'id': ids('x')},
                     {'op': 'wait', 'n': {'k': 'delay', 'd': 3}, 'id': ids('w')}]},
                {'op': 'wait', 'n': {'k': 'delay', 'd': 1}, 'id': ids('w')}]})
    # a negative start time puts date 0 - and every other date of the grid - into the future
    start = rng.choice([0, 0, 0, -3, -0.5])
    if start and tasks:
        # helpers finish at their (absolute) date: keeps one change per virtual time
        helpers = next(root for root in roots if root['name'] == 'helpers')
        for child in helpers['steps'][0]['children']:
            wait = child['steps'][0]
            wait['n'] = {'k': 'ge', 't': wait['n']['d']}
    program = {'objects': objects, 'roots': roots, 'start': start, 'till': None}
    return program, changes


def blocks_of(program):
    found = []

    def walk(steps, owner):
        for step in steps:
            if step['op'] == 'try':
                walk(step['body'], owner)
            elif step['op'] == 'scope':
                if owner.startswith('subject'):
                    found.append((step['id'], owner))
                walk(step['body'], owner)
                # children are separate actors but their blocks (none generated) are ignored
    for root in program['roots']:
        walk(root['steps'], root['name'])
    return found


def replace_notif(program, sid):
    clone = copy.deepcopy(program)

    def walk(steps):
        for step in steps:
            if step['op'] == 'try':
                walk(step['body'])
            elif step['op'] == 'scope':
                if step['id'] == sid:
                    step['n'] = {'k': 'eternity'}
                walk(step['body'])
    for root in clone['roots']:
        walk(root['steps'])
    return clone


def find_step(program, sid):
    def walk(steps):
        for step in steps:
            if step.get('id') == sid:
                return step
            if step['op'] in ('scope', 'try'):
                hit = walk(step['body'])
                if hit is not None:
                    return hit
        return None
    for root in program['roots']:
        hit = walk(root['steps'])
        if hit is not None:
            return hit


def block_times(sess):
    """sid -> (entry time, exit time or None) from the event log; first instance only"""
    entered, left = {}, {}
    for event in sess.events:
        if event[2] == 'start' and event[3] == 'scope':
            entered.setdefault(event[4], event[0])
        elif event[2] == 'scope-left':
            left.setdefault(event[3], event[0])
    return entered, left


def run(program):
    sess = Session()
    env, outcome = execute(program, sess, lifecycle=False)
    return env, sess


def judge_until(case, program, changes):
    violations = []
    stats = {'blocks_judged': 0, 'ended_by_trigger': 0, 'completed_first': 0,
             'never_left': 0, 'ambiguous': 0, 'reference_runs': 0, 'activations': 0,
             'kinds': {}}
    env, sess = run(program)
    stats['activations'] += sess.n
    for vio in sess.violations:
        if vio['mechanism'].startswith(('c04:', 'kernel-', 'foreign-', 'leaked', 'run-ended',
                                        'internal-error', 'c05:own-signal', 'c05:spurious')):
            violations.append(dict(vio))
    if env.outcome != 'ok':
        violations.append({'mechanism': 'c07:exception-left-block',
                           'msg': 'a program that raises nothing ended with %s' % env.outcome})
    entered, left = block_times(sess)
    nontrivial = False
    for sid, owner in blocks_of(program):
        if sid not in entered:
            continue
        step = find_step(program, sid)
        spec = step['n']
        entry = entered[sid]
        triggers = model.trigger_times(spec, entry, program['objects'], changes)
        reference = replace_notif(program, sid)
        renv, rsess = run(reference)
        stats['reference_runs'] += 1
        stats['activations'] += rsess.n
        rentered, rleft = block_times(rsess)
        if rentered.get(sid) != entry:
            violations.append({'mechanism': 'harness-error',
                               'msg': 'reference run entered %s at %r, main run at %r' % (
                                   sid, rentered.get(sid), entry)})
            continue
        completion = rleft.get(sid)        # None: never completes on its own
        stats['blocks_judged'] += 1
        kind = spec['k']
        stats['kinds'][kind] = stats['kinds'].get(kind, 0) + 1
        expected = set()
        for trigger in triggers:
            if trigger is None:
                expected.add(completion)
            elif completion is None:
                expected.add(trigger)
            else:
                expected.add(min(trigger, completion))
        if len(expected) > 1:
            stats['ambiguous'] += 1
        got = left.get(sid)
        if got not in expected:
            violations.append({
                'mechanism': 'c07:wrong-block-end' if got is not None else 'c07:block-never-ended',
                'msg': 'until(%s) entered at %r by %s: left at %r, expected %s (trigger %s, '
                       'completion %r)' % (spec, entry, owner, got, sorted(map(str, expected)),
                                           sorted(map(str, triggers)), completion)})
            continue
        if got is None:
            stats['never_left'] += 1
            continue
        only = next(iter(triggers)) if len(triggers) == 1 else 'ambiguous'
        if only != 'ambiguous' and (only is None or (completion is not None and completion < only)):
            stats['completed_first'] += 1
            # n has no further effect: everything the owner does afterwards equals the reference
            def projection(events):
                # which of two blocks with the same deadline is struck first is a matter of
                # order inside the time step: a block counts as "left", however it was left
                result = []
                for ev in events:
                    if ev[1] != owner or ev[2] in ('body-done', 'scope-left'):
                        continue
                    if ev[2] in ('end', 'exc') and ev[3] == 'scope':
                        result.append((ev[0], 'left', ev[4]))
                    elif ev[2] == 'exc' and ev[-1] in ('CancelScope',):
                        result.append((ev[0], 'abandoned', ev[4]))
                    else:
                        result.append(ev)
                return result

            def coarse(result, loose):
                # Inside a time step in which a notification strikes a block of the owner, the
                # point at which the body is abandoned (which of several same-time waits it
                # still completes, whether an inner block with the same deadline ends first) is
                # a matter of order inside the time step: of such a time step only the set of
                # blocks that were left is compared (each block is judged on its own anyway)
                merged = []
                done = set()
                for ev in result:
                    if ev[0] in loose:
                        if ev[0] not in done:
                            done.add(ev[0])
                            merged.extend(sorted({e for e in result if e[0] == ev[0]
                                                  and e[1] == 'left'}, key=str))
                        continue
                    merged.append(ev)
                return merged

            def loose_times(result):
                lefts = {}
                for ev in result:
                    if ev[1] == 'left':
                        lefts[ev[0]] = lefts.get(ev[0], 0) + 1
                return {when for when, count in lefts.items() if count >= 2} | {
                    ev[0] for ev in result if ev[1] == 'abandoned'}
            mine = projection(sess.events)
            theirs = projection(rsess.events)
            loose = loose_times(mine) | loose_times(theirs)
            mine, theirs = coarse(mine, loose), coarse(theirs, loose)
            if mine != theirs:
                diff = next((pair for pair in zip(mine, theirs) if pair[0] != pair[1]),
                            (len(mine), len(theirs)))
                violations.append({
                    'mechanism': 'c07:notification-effect-after-completion',
                    'msg': 'block %s completed at %r before its notification (%s), but %s then '
                           'behaves differently from the run without the notification: %r'
                           % (sid, got, only, owner, diff)})
        elif only != 'ambiguous':
            stats['ended_by_trigger'] += 1
            nontrivial = True
        # nothing of the block's body or children is logged later than its end
        info = next((i for i in env.scope_inst.values() if i['sid'] == sid), None)
        if info is not None:
            names = {name for name, _ in info['children']}
            for event in sess.events:
                if event[1] in names and event[0] > got:
                    violations.append({
                        'mechanism': 'c07:event-after-block-end',
                        'msg': '%s logged %r at %r, block %s ended at %r' % (
                            event[1], event[2:5], event[0], sid, got)})
                    break
    return violations, stats, sess, nontrivial


def judge_till(case, rng):
    """run(..., till=T) executes nothing at a virtual time later than T"""
    from .c01 import TimingGen
    general = rng.random() < 0.5
    if general:
        # programs over the whole API, heavy on nested blocks whose children hand follow-up
        # work to their scope from their clean-up code - also when they are closed at `till`
        from ..gen import Gen
        program = Gen(rng, weights={'guard': 8, 'scope': 12, 'until': 6, 'spawn': 4, 'wait': 12,
                                    'raise': 0, 'graceful': 3},
                      max_depth=3, max_steps=4, max_roots=3).program()
    else:
        program = TimingGen(rng).program()
    start = program['start']
    horizon = rng.choice([0, 0, 0.5, 1, 2, 3, 5, 20])
    till = start + horizon
    program['till'] = till
    sess = Session()
    env, outcome = execute(program, sess, lifecycle=False)
    violations = []
    for vio in sess.violations:
        if vio['mechanism'].startswith(('kernel-clock', 'run-ended', 'internal-error', 'foreign-',
                                        'leaked')):
            violations.append(dict(vio))
    if env.outcome != 'ok' and not general:
        violations.append({'mechanism': 'c07:run-till-failed',
                           'msg': 'run(till=%r) from %r ended with %s' % (till, start, env.outcome)})
    late = [(label, when) for label, when in sess.trace
            if when > till and not label.startswith('internal:')]
    if late:
        violations.append({'mechanism': 'c07:executed-after-till',
                           'msg': 'run(till=%r): %s activated at %r' % (till, late[0][0], late[0][1])})
    late_events = [ev for ev in sess.events if ev[0] > till]
    if late_events:
        violations.append({'mechanism': 'c07:executed-after-till',
                           'msg': 'run(till=%r): event %r' % (till, late_events[0])})
    stats = {'till_runs': 1, 'till_general_programs': int(general),
             'till_cleanup_spawns': sess.stats.get('cleanup_spawns', 0), 'till_cut_short': int(any(True for ev in sess.events
                                                         if ev[2] == 'exc')),
             'activations': sess.n}
    for vio in violations:
        vio['case'] = dict(case, program=program)
    return violations, stats, sess


def reused_conditions(case, rng):
    """condition objects (flags, comparisons, connectives of them) that served an earlier
    simulation - their block left without them firing, fired, aborted by a failure, their waiter
    cancelled - guard blocks and are awaited in later simulations: those end / resume exactly
    when the condition becomes true there"""
    import usim
    from usim import time, until, Flag, Tracked, Scope, TaskCancelled
    a, b, c, x = Flag(), Flag(), Flag(), Tracked(0)
    shape = rng.choice(['or', 'and', 'nested', 'tracked-and', 'inverse', 'flag', 'cmp', 'deep'])
    cond, to_true, to_false = {
        'or': (a | b, [(b, True)], [(b, False)]),
        'and': (a & b, [(a, True), (b, True)], [(a, False), (b, False)]),
        'nested': (a & (b | c), [(c, True), (a, True)], [(a, False), (c, False)]),
        'tracked-and': ((x > 3) & a, [(x, 5), (a, True)], [(x, 0), (a, False)]),
        'inverse': (~a | b, [(a, False)], [(a, True)]),
        'flag': (a, [(a, True)], [(a, False)]),
        'cmp': (x > 3, [(x, 7)], [(x, 1)]),
        'deep': ((a | b) & (b | c) & ~c, [(b, True)], [(b, False)]),
    }[shape]
    first_mode = rng.choice(['left', 'fired', 'aborted', 'waiter-cancelled', 'awaited'])
    violations = []
    log = []

    class Abort(Exception):
        pass

    async def change(settings):
        for target, value in settings:
            await target.set(value)

    async def first():
        await change(to_false)
        if first_mode == 'left':
            async with until(cond):
                await (time + 5)
        elif first_mode == 'fired':
            async with Scope() as scope:
                scope.do(change(to_true), after=2)
                async with until(cond):
                    await (time + 5)
            await change(to_false)
        elif first_mode == 'aborted':
            async with until(cond):
                await (time + 2)
                raise Abort
        elif first_mode == 'waiter-cancelled':
            async def waits():
                await cond
            async with Scope() as scope:
                task = scope.do(waits())
                await (time + 2)
                task.cancel()
                try:
                    await task
                except TaskCancelled:
                    pass
        else:
            async with Scope() as scope:
                scope.do(change(to_true), after=2)
                await cond
            await change(to_false)

    async def later(tag, base):
        await change(to_false)
        async with Scope() as scope:
            scope.do(change(to_true), after=3)
            async with until(cond):
                await (time + 10)
            log.append((tag, 'block left', time.now - base))
        await change(to_false)
        async with Scope() as scope:
            scope.do(change(to_true), after=2)
            await cond
            log.append((tag, 'await resumed', time.now - base))
        await change(to_false)
        async with until(cond):
            await (time + 4)
        log.append((tag, 'block not struck', time.now - base))

    sessions = [Session()]
    outcome = sessions[0].run(first())
    if (outcome[0] == 'exc') != (first_mode == 'aborted') or (
            outcome[0] == 'exc' and not isinstance(outcome[1], Abort)):
        violations.append({'mechanism': 'c07:run-failed',
                           'msg': 'first simulation (%s, %s) ended with %r' % (
                               shape, first_mode, outcome[1])})
    outcome = None
    want = []
    for tag, base in (('second', 0), ('third', 100)):
        sessions.append(Session())
        outcome = sessions[-1].run(later(tag, base), start=base)
        want += [(tag, 'block left', 3), (tag, 'await resumed', 5), (tag, 'block not struck', 9)]
        if outcome[0] != 'ok':
            violations.append({
                'mechanism': 'c07:run-failed',
                'msg': 'a %s condition that served an earlier simulation (%s): the %s simulation '
                       'ended with %r' % (shape, first_mode, tag, outcome[1])})
            break
    if not violations and log != want:
        violations.append({
            'mechanism': 'c07:wrong-exit-time',
            'msg': 'a %s condition that served an earlier simulation (%s): later simulations '
                   'logged %s, expected %s' % (shape, first_mode, log, want)})
    for sess in sessions:
        violations += [dict(v) for v in sess.violations if v['mechanism'].startswith('kernel-')]
    for vio in violations:
        vio['case'] = dict(case)
    return violations, sessions[-1]


def dates_across_runs(case, rng, prefix='c07'):
    """date conditions kept by the program: a simulation that waited for one is aborted by a
    failure before the date; in the next simulation the same object ends blocks and resumes
    waits exactly at its date (also used by C08)"""
    import usim
    from usim import time, until, Scope
    date = rng.choice([4, 6, 6.5])
    cond = (time >= date) if rng.random() < 0.6 else (time == date)
    first_use = rng.choice(['until', 'await-in-child', 'both', 'connective'])
    abort_at = rng.choice([1, 2, 3])
    log = []

    class Abort(Exception):
        pass

    async def waits():
        await cond

    async def first():
        async with Scope() as scope:
            if first_use in ('await-in-child', 'both'):
                scope.do(waits())
            if first_use in ('until', 'both'):
                async with until(cond):
                    await (time + abort_at)
                    raise Abort
            elif first_use == 'connective':
                async with until(cond | (time >= 50)):
                    await (time + abort_at)
                    raise Abort
            else:
                await (time + abort_at)
                raise Abort

    async def later():
        async with Scope() as scope:
            scope.do(resumed())
            async with until(cond):
                await (time + 20)
            log.append(('block left', time.now))

    async def resumed():
        await cond
        log.append(('await resumed', time.now))

    sessions = [Session()]
    outcome = sessions[0].run(first())
    violations = []
    if outcome[0] != 'exc' or not isinstance(outcome[1], (Abort, usim.Concurrent)):
        violations.append({'mechanism': prefix + ':run-failed',
                           'msg': 'first simulation ended with %r' % (outcome[1],)})
    outcome = None
    sessions.append(Session())
    outcome = sessions[1].run(later())
    what = 'a date condition (%s) whose first simulation (%s) was aborted at %r' % (
        cond, first_use, abort_at)
    if outcome[0] != 'ok':
        violations.append({'mechanism': prefix + ':run-failed',
                           'msg': '%s: the next simulation ended with %r' % (what, outcome[1])})
    elif sorted(log) != [('await resumed', date), ('block left', date)]:
        violations.append({'mechanism': 'c07:wrong-block-end' if prefix == 'c07'
                           else 'c08:missed-wakeup',
                           'msg': '%s: the next simulation logged %s, the date is %r' % (
                               what, log, date)})
    for sess in sessions:
        violations += [dict(v) for v in sess.violations if v['mechanism'].startswith('kernel-')]
    for vio in violations:
        vio['case'] = dict(case)
    return violations, sessions[-1]


def own_notification_inside(case, rng):
    """the activity inside `until(n)` uses the same object n again inside the block - awaits it
    directly (the await abandoned by another, earlier interrupt), guards an inner block with it
    that is left early, lets a child wait for it that is cancelled: the block is still ended by
    n, at the time n fires"""
    import usim
    from usim import time, until, Flag, Tracked, Scope, eternity
    a, b, x = Flag(), Flag(), Tracked(0)
    fire_at = rng.choice([5, 5, 6.5])
    shape = rng.choice(['flag', 'or', 'and', 'cmp', 'date', 'moment', 'inverse'])
    cond, to_true = {
        'flag': (a, [(a, True)]),
        'or': (a | b, [(b, True)]),
        'and': (a & b, [(a, True), (b, True)]),
        'cmp': (x > 3, [(x, 5)]),
        'date': (time >= fire_at, []),
        'moment': (time == fire_at, []),
        'inverse': (~a, [(a, False)]),
    }[shape]
    uses = [rng.choice(['await-abandoned', 'inner-block-left', 'inner-block-failed',
                        'child-cancelled', 'await-abandoned-by-flag', 'nested-twice'])
            for _ in range(rng.randint(1, 3))]
    log = []

    class Leave(Exception):
        pass

    async def waits():
        await cond

    async def subject():
        if shape == 'inverse':
            await a.set(True)
        other = Flag()
        async with Scope() as scope:
            scope.do(fire(), after=fire_at - time.now)
            async with until(cond):
                for use in uses:
                    if use == 'await-abandoned':
                        async with until(time + 1):
                            await cond
                    elif use == 'await-abandoned-by-flag':
                        scope.do(other.set(), after=0.5)
                        async with until(other):
                            await cond
                        await other.set(False)
                    elif use == 'inner-block-left':
                        async with until(cond):
                            await (time + 0.5)
                    elif use == 'inner-block-failed':
                        try:
                            async with until(cond):
                                raise Leave
                        except Leave:
                            pass
                    elif use == 'nested-twice':
                        async with until(cond):
                            async with until(time + 0.5):
                                await cond
                    else:
                        task = scope.do(waits())
                        await (time + 0.5)
                        task.cancel()
                    log.append(('used', use, time.now))
                await (time + 20)
                log.append(('body completed', time.now))
            log.append(('block left', time.now))

    async def fire():
        for target, value in to_true:
            await target.set(value)

    sess = Session()
    outcome = sess.run(subject())
    violations = [dict(v) for v in sess.violations if v['mechanism'].startswith('kernel-')]
    what = 'until(%s condition) whose body uses the same object again (%s)' % (shape, uses)
    if outcome[0] != 'ok':
        violations.append({'mechanism': 'c07:run-failed',
                           'msg': '%s: run() ended with %r' % (what, outcome[1])})
    elif log[-1] != ('block left', fire_at) or ('body completed', 20) in [
            (entry[0], 20) for entry in log if entry[0] == 'body completed']:
        violations.append({'mechanism': 'c07:wrong-block-end',
                           'msg': '%s: the condition fires at %r, logged %s' % (
                               what, fire_at, log)})
    for vio in violations:
        vio['case'] = dict(case)
    return violations, sess


def primitive_waits(case, rng):
    """the body of `until(n)` is suspended in a wait of some primitive - a message, an item, a
    lock, resources, a transfer, a task, a collection of activities - and what it waits for
    arrives in the very time step in which n fires, before or after the block's interrupt has
    been queued: the block still ends in that time step, and the body is not continued beyond
    its next suspension point (whether or not it still got what it waited for)"""
    import usim
    from usim import (time, until, Flag, Tracked, Scope, Channel, Queue, Lock, Resources,
                      Capacities, Pipe, collect, first, instant, Concurrent, TaskCancelled)
    fire_at = rng.choice([5, 5, 6.5, 8])
    wait = rng.choice(['channel-await', 'channel-iter', 'queue-get', 'queue-iter', 'lock',
                       'borrow', 'borrow-capacity', 'flag', 'tracked', 'task', 'transfer',
                       'collect', 'first'])
    trigger = rng.choice(['delay', 'date', 'moment', 'flag', 'tracked', 'or'])
    completer_late = rng.random() < 0.5
    setter_late = rng.random() < 0.5
    completer_first = rng.random() < 0.5
    in_child = rng.random() < 0.3
    held = rng.choice([None, None, 'borrow', 'finally'])
    outer = rng.choice([None, None, None, 'until-same', 'until-date', 'failure', 'cancel'])
    canceller_box = []
    spare = Resources(a=1)
    log = []
    channel, queue, lock = Channel(), Queue(), Lock()
    supply, capacity, pipe = Resources(a=2), Capacities(a=2), Pipe(throughput=2)
    gate, level, fired, meter = Flag(), Tracked(0), Flag(), Tracked(0)

    async def sleep_until(date, late):
        if late:
            await (time + 2)        # (the wake-up for `date` is queued after the block began)
        await (time + (date - time.now))

    async def work(duration, value):
        await (time + duration)
        return value

    async def holder():
        # holds what the body asks for until the time at which the block is ended
        async with lock:
            async with supply.borrow(a=2):
                async with capacity.borrow(a=2):
                    await sleep_until(fire_at, completer_late)

    async def completer():
        await sleep_until(fire_at, completer_late)
        if wait.startswith('channel'):
            await channel.put('message')
        elif wait.startswith('queue'):
            await queue.put('item')
        elif wait == 'flag':
            await gate.set()
        elif wait == 'tracked':
            await level.set(5)

    async def setter():
        await sleep_until(fire_at, setter_late)
        if trigger in ('flag', 'or'):
            await fired.set()
        else:
            await meter.set(7)

    async def body(scope):
        if wait == 'channel-await':
            await channel
        elif wait == 'channel-iter':
            async for _ in channel:
                break
        elif wait == 'queue-get':
            await queue
        elif wait == 'queue-iter':
            async for _ in queue:
                break
        elif wait == 'lock':
            async with lock:
                log.append(('resumed', time.now))
                await (time + 10)
        elif wait == 'borrow':
            async with supply.borrow(a=1):
                log.append(('resumed', time.now))
                await (time + 10)
        elif wait == 'borrow-capacity':
            async with capacity.borrow(a=2):
                log.append(('resumed', time.now))
                await (time + 10)
        elif wait == 'flag':
            await gate
        elif wait == 'tracked':
            await (level > 3)
        elif wait == 'task':
            await scope.do(work(fire_at - time.now, 'done'))
        elif wait == 'transfer':
            await pipe.transfer(2 * (fire_at - time.now))
        elif wait == 'collect':
            await collect(work(fire_at - time.now, 'a'), work(1, 'b'))
        elif wait == 'first':
            async for _ in first(work(fire_at - time.now, 'a'), work(fire_at - time.now + 3, 'b')):
                break
        log.append(('resumed', time.now))
        await (time + 10)
        log.append(('continued', time.now))

    async def held_body(scope):
        # the wait sits inside a block / a handler whose clean-up suspends: whatever unwinds the
        # body passes a break point on its way out
        if held == 'borrow':
            async with spare.borrow(a=1):
                await body(scope)
        elif held == 'finally':
            try:
                await body(scope)
            finally:
                await instant
        else:
            await body(scope)

    async def block(scope):
        notification = {
            'delay': lambda: time + (fire_at - time.now), 'date': lambda: time >= fire_at,
            'moment': lambda: time == fire_at, 'flag': lambda: fired,
            'tracked': lambda: meter > 3, 'or': lambda: fired | (time >= fire_at + 30),
        }[trigger]()
        async with until(notification):
            if in_child:
                async with Scope() as inner:
                    inner.do(held_body(inner))
            else:
                await held_body(scope)

    async def failing():
        await sleep_until(fire_at, False)
        raise KeyError('child of the enclosing block')

    async def subject(scope):
        await (time + 1)
        if outer is None:
            await block(scope)
        elif outer in ('until-same', 'until-date'):
            # an enclosing until block that is due in the same time step (subscribed first)
            async with until(time == fire_at if outer == 'until-date' else
                             time + (fire_at - time.now)):
                await block(scope)
                log.append(('inner block left', time.now))
                await (time + 5)
                log.append(('outer body continued', time.now))
        elif outer == 'failure':
            # an enclosing scope one of whose children fails in the same time step
            try:
                async with Scope() as around:
                    around.do(failing())
                    await block(scope)
                    log.append(('inner block left', time.now))
                    await (time + 5)
                    log.append(('outer body continued', time.now))
            except Concurrent:
                pass
        else:
            # the activity is cancelled in the same time step (by somebody who was queued for
            # that time before the block was entered)
            async def cancelled():
                await block(scope)
                log.append(('inner block left', time.now))
                await (time + 5)
                log.append(('outer body continued', time.now))
            task = scope.do(cancelled())
            canceller_box.append(task)
            try:
                await task
            except TaskCancelled:
                pass
        log.append(('block left', time.now))

    async def canceller():
        await sleep_until(fire_at, False)
        canceller_box[0].cancel()

    async def main():
        async with Scope() as scope:
            if wait in ('lock', 'borrow', 'borrow-capacity'):
                scope.do(holder())
            else:
                mine = [completer()]
            others = [setter()] if trigger in ('flag', 'tracked', 'or') else []
            if wait not in ('lock', 'borrow', 'borrow-capacity'):
                others = mine + others if completer_first else others + mine
            for coro in others:
                scope.do(coro)
            if outer == 'cancel':
                scope.do(canceller())
            await subject(scope)
            await (time + 30)       # whatever the body would still do shows up in the log

    sess = Session()
    outcome = sess.run(main())
    violations = [dict(v) for v in sess.violations if v['mechanism'].startswith('kernel-')]
    what = 'until(%s) around a body%s suspended in %s%s, both due at %r (completer %s, setter %s, ' \
           '%s first)%s' % (trigger, ' (a child)' if in_child else '', wait,
                            ' inside a block whose clean-up suspends (%s)' % held if held else '',
                            fire_at, 'late' if completer_late else 'early',
                            'late' if setter_late else 'early',
                            'completer' if completer_first else 'setter',
                            '; due in the same time step: %s' % outer if outer else '')
    if outcome[0] != 'ok':
        violations.append({'mechanism': 'c07:run-failed',
                           'msg': '%s: run() ended with %r' % (what, outcome[1])})
    elif ('block left', fire_at) not in log or any(entry[1] != fire_at for entry in log) \
            or any(entry[0] in ('continued', 'outer body continued') for entry in log):
        violations.append({'mechanism': 'c07:wrong-block-end',
                           'msg': '%s: logged %s' % (what, log)})
    for vio in violations:
        vio['case'] = dict(case)
    return violations, sess


def run_case(case):
    rng = random.Random('%s/%s/c07-kind' % (case['seed'], case['index']))
    if case['index'] % 20 in (7, 17):
        violations, sess = primitive_waits(case, rng)
        return {'evals': 1, 'sigs': [sess.signature()], 'violations': violations, 'sample': None,
                'stats': {'blocks_suspended_in_primitive_waits': 1, 'activations': sess.n}}
    if case['index'] % 20 == 3:
        violations, sess = own_notification_inside(case, rng)
        return {'evals': 1, 'sigs': [sess.signature()], 'violations': violations, 'sample': None,
                'stats': {'blocks_using_their_own_notification': 1, 'activations': sess.n}}
    if case['index'] % 20 == 13:
        violations, sess = (dates_across_runs if case['index'] % 40 == 33
                            else reused_conditions)(case, rng)
        return {'evals': 3, 'sigs': [sess.signature()], 'violations': violations, 'sample': None,
                'stats': {'conditions_reused_by_later_simulations': 1, 'activations': sess.n}}
    if case['index'] % 5 == 4:
        violations, stats, sess = judge_till(case, rng)
        sigs = [sess.signature()] if stats['till_cut_short'] else []
        return {'evals': 1, 'sigs': sigs, 'stats': stats, 'violations': violations,
                'sample': None}
    program, changes = build(case)
    violations, stats, sess, nontrivial = judge_until(case, program, changes)
    for vio in violations:
        vio.setdefault('case', dict(case))
    sample = None
    if case['index'] < 16:
        sample = {'program': program, 'changes': changes,
                  'events': [list(map(str, ev)) for ev in sess.events[:30]]}
    return {'evals': 1 + stats['reference_runs'], 'sigs': [sess.signature()] if nontrivial else [],
            'stats': stats, 'violations': violations, 'sample': sample}
