"""C02 - the trace is a function of the program alone (deterministic FIFO turn order)"""
import json
import os
import subprocess
import sys

from .. import bootstrap  # noqa: F401
from ..c02trace import build

PROPERTY = 'C02'
LEVEL = 'exploration'
RULE = (
    'random programs over the whole API biased towards fan-out (many waiters per flag / '
    'tracked value / resource, channel broadcasts, queue closes, scope aborts); every program '
    'is executed in 9 fresh processes (hash seed 0/1/random, USIM_WAITQUEUE heap/SD, -O, heap '
    'junk between object constructions, cyclic GC off / at every allocation) and twice per process; the normalised event logs '
    '(activity, step, time, outcome - no addresses) and the activation traces must be '
    'byte-identical; the kernel FIFO monitor runs on every activation; non-trivial = at least '
    'one time step with >= 2 distinct runnable activities; distinct = distinct event-log digest'
)
RULE = RULE + (' Further: two-run programs (first simulation aborted, loop-sized allocations in between), negative start times, a handler-matching battery over exception classes made afresh in every run and a levels battery (a supply declared in another order and dropped) at the end of every trace.')

LEVEL_TEXT = (
    'Exploration by differential runtime monitoring: the event log of the real code is recorded '
    'for each generated program under 9 process configurations and compared; a kernel monitor '
    'checks FIFO order of same-time activations against scheduling sequence numbers on every '
    'activation. Held = all logs identical on the programs explored.')
TECHNIQUE = 'runtime monitoring: differential event-log comparison across process configurations + kernel FIFO monitor'
ASSUMPTIONS = [
    'programs from the scenario language; CPython 3.12.1 only',
    'event logs contain activity names, step ids, virtual times, values and exception names',
]
REQUIRED_STATS = ['programs_compared', 'pairs_compared', 'activations']

PYTHON = sys.executable
VERIF = os.path.dirname(os.path.dirname(os.path.dirname(os.path.abspath(__file__))))

CONFIGS = [
    ('ref', {'PYTHONHASHSEED': '0'}, False),
    ('hash1', {'PYTHONHASHSEED': '1'}, False),
    ('hashrandom', {'PYTHONHASHSEED': 'random'}, False),
    ('junk', {'PYTHONHASHSEED': '0', 'VERIF_JUNK': '5'}, False),
    ('sd', {'PYTHONHASHSEED': '0', 'USIM_WAITQUEUE': 'SD'}, False),
    ('opt', {'PYTHONHASHSEED': '2'}, True),
    ('sd-opt-junk', {'PYTHONHASHSEED': '3', 'USIM_WAITQUEUE': 'SD', 'VERIF_JUNK': '9'}, True),
    ('gc-off', {'PYTHONHASHSEED': '4', 'VERIF_GC': 'off'}, False),
    ('gc-aggressive', {'PYTHONHASHSEED': '5', 'VERIF_GC': 'aggressive', 'VERIF_JUNK': '2'}, False),
]
BATCH = 40


def n_cases(tier):
    return 16 if tier == 'quick' else 320


def make_case(seed, index, tier):
    return {'seed': seed, 'first': index * BATCH, 'last': (index + 1) * BATCH}


def trace_config(config, seed, first, last, full=None):
    name, extra, opt = config
    env = dict(os.environ)
    for key in ('USIM_WAITQUEUE', 'VERIF_JUNK', 'PYTHONHASHSEED', 'VERIF_GC'):
        env.pop(key, None)
    env.update(extra)
    env['PYTHONPATH'] = VERIF
    cmd = [PYTHON] + (['-O'] if opt else []) + [
        '-m', 'usimmon.c02trace', str(seed), str(first), str(last)]
    if full is not None:
        cmd += ['--full', str(full)]
    proc = subprocess.run(cmd, cwd=VERIF, env=env, stdout=subprocess.PIPE,
                          stderr=subprocess.DEVNULL, timeout=1800)
    records = {}
    for line in proc.stdout.decode().splitlines():
        try:
            rec = json.loads(line)
        except ValueError:
            continue
        records[rec['index']] = rec
    return records, proc.returncode


def first_difference(seed, first, index, config, within=False):
    ref, _ = trace_config(CONFIGS[0], seed, first, index + 1, full=index)
    a = ref.get(index, {}).get('lines', [])
    if within:
        other, _ = trace_config(config, seed, first, index + 1, full=index)
        a = other.get(index, {}).get('lines', [])
        b = other.get(index, {}).get('lines2', [])
    else:
        other, _ = trace_config(config, seed, first, index + 1, full=index)
        b = other.get(index, {}).get('lines', [])
    for pos, (x, y) in enumerate(zip(a, b)):
        if x != y:
            return {'position': pos, 'ref': a[max(0, pos - 2):pos + 2],
                    'other': b[max(0, pos - 2):pos + 2]}
    if len(a) != len(b):
        return {'position': min(len(a), len(b)), 'ref_len': len(a), 'other_len': len(b)}
    ta = ref.get(index, {}).get('trace_list', [])
    tb = other.get(index, {}).get('trace_list', [])
    for pos, (x, y) in enumerate(zip(ta, tb)):
        if x != y:
            return {'trace_position': pos, 'ref': ta[max(0, pos - 2):pos + 2],
                    'other': tb[max(0, pos - 2):pos + 2]}
    return {'note': 'difference not reproduced when re-run'}


def classify(diff):
    """mechanism of a divergence, from the first differing events"""
    return 'event-log-differs'


def run_case(case):
    seed, first, last = case['seed'], case['first'], case['last']
    results = {}
    violations = []
    stats = {'programs_compared': 0, 'pairs_compared': 0, 'activations': 0,
             'configurations': len(CONFIGS), 'in_process_reruns': 0}
    for config in CONFIGS:
        records, code = trace_config(config, seed, first, last)
        results[config[0]] = records
        if code != 0 or len(records) != last - first:
            violations.append({'mechanism': 'harness-error',
                               'msg': 'trace process %s exited %s with %d/%d records' % (
                                   config[0], code, len(records), last - first)})
    ref = results['ref']
    diagnosed = 0
    if first == 0:
        # deterministic canary for the known finding (consequence of D15 under -O)
        canary_ref, _ = trace_config(CONFIGS[0], seed, -1, 0)
        canary_opt, _ = trace_config(next(c for c in CONFIGS if c[0] == 'opt'), seed, -1, 0)
        stats['canary_runs'] = 1
        if canary_ref.get(-1, {}).get('digest') != canary_opt.get(-1, {}).get('digest') \
                and (canary_ref.get(-1, {}).get('d15') or canary_opt.get(-1, {}).get('d15')):
            violations.append({
                'mechanism': 'differs-under-O-after-first-cancelscope-leak',
                'msg': 'canary program (first() with a failing activity and a consumer '
                       'suspended in its loop body, inside a child task): the event log differs '
                       'between python and python -O',
                'case': {'seed': seed, 'first': -1, 'last': 0}})
    sigs = []
    sample = None
    for index in range(first, last):
        base = ref.get(index)
        if base is None:
            continue
        stats['programs_compared'] += 1
        stats['activations'] += base['activations']
        if base['concurrent_steps']:
            sigs.append(base['digest'])
        for config in CONFIGS:
            rec = results[config[0]].get(index)
            if rec is None:
                continue
            stats['in_process_reruns'] += 1
            if not rec['again']:
                diagnosed += 1
                diff = first_difference(seed, first, index, config, within=True) \
                    if diagnosed <= 2 else {'not diagnosed': 'see the first ones'}
                violations.append({
                    'mechanism': classify(diff),
                    'msg': 'program %d gives two different logs in one process (%s): %s' % (
                        index, config[0], json.dumps(diff)[:900]),
                    'case': {'seed': seed, 'first': index, 'last': index + 1}})
            for vio in rec['fifo']:
                violations.append({'mechanism': vio['mechanism'],
                                   'msg': '%s (program %d, %s)' % (vio['msg'], index, config[0]),
                                   'case': {'seed': seed, 'first': index, 'last': index + 1}})
            if config[0] == 'ref':
                continue
            stats['pairs_compared'] += 1
            if rec['digest'] != base['digest'] or rec['trace'] != base['trace']:
                # (finding the first differing event costs two more runs of the batch: only
                # for the first two divergences of a batch - a change that makes every program
                # differ must not turn the verdict into a time-out)
                diagnosed += 1
                diff = first_difference(seed, first, index, config) \
                    if diagnosed <= 2 else {'not diagnosed': 'see the first ones'}
                mechanism = classify(diff)
                if (rec.get('d15') or base.get('d15')) and config[2]:
                    # known finding D15 (C03): the leaked CancelScope of first() ends up in
                    # Concurrent(<CancelScope>), which trips a usage assertion - only without -O
                    mechanism = 'differs-under-O-after-first-cancelscope-leak'
                violations.append({
                    'mechanism': mechanism,
                    'msg': 'program %d: log under %s differs from reference: %s' % (
                        index, config[0], json.dumps(diff)[:900]),
                    'case': {'seed': seed, 'first': index, 'last': index + 1}})
        if sample is None and base['concurrent_steps']:
            sample = {'program_index': index, 'program': build(seed, index),
                      'digest': base['digest'], 'configs': [c[0] for c in CONFIGS]}
    return {'evals': stats['programs_compared'] * len(CONFIGS) * 2, 'sigs': sigs,
            'stats': stats, 'violations': violations,
            'sample': sample if first == 0 else None}
