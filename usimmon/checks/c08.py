"""C08 - awaiting a condition returns only when it is true, and is never missed"""
import copy
import random

from .. import bootstrap  # noqa: F401
from ..models import until as model
from ..prog import execute, make_notif
from ..probe import Session

PROPERTY = 'C08'
LEVEL = 'exploration'
RULE = (
    'condition expression trees of depth <= 4 over 3 flags, 2 tracked integers (all six '
    'comparisons, value and tracked right-hand sides), a tracked frozenset (ordered by inclusion) '
    'and a tracked float that can be NaN, task.done / ~done, time atoms (>=, <, '
    '==), single- and multi-field resource-level comparisons, built with &, |, ~ (also ~~ and '
    'De Morgan forms); a driver performs 1-12 changes including several changes inside one '
    'time step that revert; 1-5 waiters per expression (same object and freshly built equal '
    'expressions) arriving before, between and after the changes. Oracles: (1) every resume '
    'from `await c` happens at a moment at which an independent evaluator over the shadow '
    'valuation says c is true, after at least one re-activation; (2) at every time-step end and '
    'at quiescence no waiter is still waiting on an expression the evaluator calls true; (3) at '
    'every activation boundary bool(expr), bool(~expr), bool(~~expr) read from usim agree with '
    'the evaluator. non-trivial = >= 1 resume after a real wait; distinct = activation trace'
)
RULE = RULE + (' Further: enum-like and coarse-equality tracked values, changes through every operator of Tracked, one connective inside several conditions, waiters cancelled right after subscribing, conditions on borrowed blocks, snapshots of resources.levels as operands, date conditions across an aborted simulation.')

LEVEL_TEXT = (
    'Exploration by runtime monitoring against an executable model: an independent boolean '
    'evaluator over a shadow valuation (maintained from the program\'s own set operations) is '
    'compared with the real conditions at every resume, every time-step end and every '
    'activation boundary of generated programs.')
TECHNIQUE = 'runtime monitoring: truth-at-resume, missed-wake-up at time-step ends and bool() agreement at activation boundaries vs independent evaluator'
ASSUMPTIONS = [
    'resource levels are only changed by increase/decrease/set in these programs (no borrows), '
    'so the shadow valuation is exact',
    'time == t is never inverted (documented as undefined)',
]
REQUIRED_STATS = ['resumes_checked', 'step_end_checks', 'bool_checks', 'real_waits']

GRID = [0.5, 1, 1.5, 2, 2.5, 3, 4]
# decimal dates among which  n + (d - n) != d  for 8 of the 15 pairs n < d of the first six
DEC = [0.7, 0.8, 1.2, 2.9, 3.4, 3.9, 4.8]


def n_cases(tier):
    return 5000 if tier == 'quick' else 120000


def make_case(seed, index, tier):
    return {'seed': seed, 'index': index, 'tier': tier}


def gen_atom(rng, tasks):
    kind = rng.choice(['flag', 'flag', 'flag', 'tracked', 'tracked', 'tracked', 'done', 'ge', 'lt',
                       'eq', 'levels', 'levels', 'instant', 'eternity', 'partial', 'partial'])
    if kind == 'partial':
        # tracked values that are only partially ordered: sets (by inclusion) and NaN
        roll = rng.random()
        if roll < 0.15:
            # records whose revisions are all equal (==) to each other but ordered by priority
            return {'k': 'tracked', 'i': 5, 'cmp': rng.choice(['lt', 'le', 'ge', 'gt']),
                    'v': {'coarse': [0, rng.randint(0, 3)]}}
        if roll < 0.3:
            # enum-like values: objects that have an attribute `value` themselves
            return {'k': 'tracked', 'i': 4, 'cmp': rng.choice(['lt', 'le', 'eq', 'ne', 'ge', 'gt']),
                    'v': {'mode': rng.randint(0, 3)}}
        if roll < 0.7:
            return {'k': 'tracked', 'i': 2, 'cmp': rng.choice(['lt', 'le', 'eq', 'ne', 'ge', 'gt']),
                    'v': {'set': sorted(rng.sample([1, 2, 3], rng.randint(0, 3)))}}
        return {'k': 'tracked', 'i': 3, 'cmp': rng.choice(['lt', 'le', 'eq', 'ne', 'ge', 'gt']),
                'v': rng.choice([0, 1, 1.5])}
    if kind == 'flag':
        return {'k': 'flag', 'f': rng.randrange(3), 'neg': rng.random() < 0.3}
    if kind == 'tracked':
        right = rng.randint(0, 3) if rng.random() < 0.8 else {'i': 1}
        return {'k': 'tracked', 'i': 0 if isinstance(right, dict) else rng.randrange(2),
                'cmp': rng.choice(['lt', 'le', 'eq', 'ne', 'ge', 'gt']), 'v': right}
    if kind == 'done':
        if not tasks:
            return {'k': 'flag', 'f': 0, 'neg': False}
        return {'k': 'done', 'task': rng.choice(tasks), 'neg': rng.random() < 0.3}
    if kind in ('ge', 'lt', 'eq'):
        return {'k': kind, 't': rng.choice(DEC if rng.scale != 1 else [0, 0.5, 1, 1.5, 2, 2.5, 3, 4, 6])}
    if kind == 'levels':
        if rng.random() < 0.4:
            value = {'a': rng.randint(0, 4)}
        else:
            value = {'a': rng.randint(0, 4), 'b': rng.randint(0, 3)}
        return {'k': 'levels', 'r': 0, 'cmp': rng.choice(['lt', 'le', 'eq', 'ne', 'ge', 'gt']),
                'v': value}
    return {'k': kind}


def invertible(spec):
    if spec['k'] == 'eq':
        return False
    if spec['k'] in ('and', 'or'):
        return all(invertible(sub) for sub in spec['a'])
    if spec['k'] == 'inv':
        return invertible(spec['a'])
    return True


def gen_expr(rng, tasks, depth=0, max_depth=4):
    if depth >= max_depth or rng.random() < 0.3 + 0.15 * depth:
        return gen_atom(rng, tasks)
    roll = rng.random()
    if roll < 0.4:
        return {'k': 'and', 'a': [gen_expr(rng, tasks, depth + 1, max_depth)
                                  for _ in range(rng.randint(2, 3))]}
    if roll < 0.8:
        return {'k': 'or', 'a': [gen_expr(rng, tasks, depth + 1, max_depth)
                                 for _ in range(rng.randint(2, 3))]}
    sub = gen_expr(rng, tasks, depth + 1, max_depth)
    tries = 0
    while not invertible(sub):
        sub = gen_expr(rng, tasks, depth + 1, max_depth) if tries < 5 else {'k': 'flag', 'f': 0}
        tries += 1
    return {'k': 'inv', 'a': sub}


class Ids:
    def __init__(self):
        self.n = 0

    def __call__(self, prefix):
        self.n += 1
        return '%s%d' % (prefix, self.n)


def build(case):
    rng = random.Random('%s/%s/c08' % (case['seed'], case['index']))
    # a quarter of the programs live on an inexact time grid (DEC), chosen so that for many of
    # its pairs  now + (date - now)  is not the date
    rng.scale = 0 if case['index'] % 4 == 3 else 1
    ids = Ids()
    objects = {'flags': 3, 'tracked': [0, 1, {'set': [1]}, 1.0, {'mode': 1}, {'coarse': [0, 1]}],
               'resources': [{'kind': 'resources', 'levels': {'a': 2, 'b': 1}}],
               # (flags that are deep copies of one idle template flag)
               'cloned': case['index'] % 6 == 1}
    n_tasks = rng.choice([0, 0, 1, 2])
    tasks = ['T%d' % index for index in range(n_tasks)]
    roots = []
    if tasks:
        children = [{'name': name, 'volatile': False, 'steps': [
            {'op': 'wait', 'n': {'k': 'delay', 'd': rng.choice(GRID if rng.scale == 1 else DEC)},
             'id': ids('h')}]}
            for name in tasks]
        body = []
        if rng.random() < 0.4:
            # some of the tasks do not get to their end: they are volatile and still running when
            # their block is left, or the block is an until() block whose deadline cuts them off -
            # a task that is forcefully closed is done as well, and whoever waits for that (from
            # outside of the block) has to hear of it
            for child in children:
                child['volatile'] = rng.random() < 0.6
            body = [{'op': 'wait', 'n': {'k': 'delay', 'd': rng.choice(
                GRID if rng.scale == 1 else DEC)}, 'id': ids('hb')}]
        roots.append({'name': 'helpers', 'steps': [
            {'op': 'scope', 'id': ids('hs'), 'n': None, 'catch': False, 'children': children,
             'body': body}]})
    # drivers: bursts of changes, several per time step (reverting ones included); with two
    # drivers a change can be reverted *before* the waiter it woke gets its turn
    for driver_no in range(rng.choice([1, 1, 2, 3])):
        roots.append({'name': 'driver%d' % driver_no,
                      'steps': gen_driver(rng, ids)})
    exprs = []
    return finish_build(rng, ids, objects, tasks, roots)


def gen_driver(rng, ids):
    driver = []
    when = 0
    rounds = rng.randint(1, 5)
    dec_times = sorted(rng.sample(DEC, rounds))
    for number in range(rounds):
        when += rng.choice([0.5, 0.5, 1, 1.5])
        if rng.scale != 1:
            when = dec_times[number]
        driver.append({'op': 'wait', 'n': {'k': 'ge', 't': when}, 'id': ids('d')})
        for _ in range(rng.choice([1, 1, 2, 3, 4])):
            roll = rng.random()
            if roll < 0.45:
                driver.append({'op': 'setflag', 'f': rng.randrange(3), 'v': rng.random() < 0.6,
                               'via_inverse': rng.random() < 0.25, 'id': ids('d')})
            elif roll < 0.55:
                if rng.random() < 0.25:
                    driver.append({'op': 'settracked', 'i': 5, 'id': ids('d'),
                                   'v': {'coarse': [0, rng.randint(0, 3)]}})
                elif rng.random() < 0.3:
                    driver.append({'op': 'settracked', 'i': 4, 'id': ids('d'),
                                   'v': {'mode': rng.randint(0, 3)}})
                elif rng.random() < 0.6:
                    driver.append({'op': 'settracked', 'i': 2, 'id': ids('d'),
                                   'v': {'set': sorted(rng.sample([1, 2, 3], rng.randint(0, 3)))}})
                else:
                    driver.append({'op': 'settracked', 'i': 3, 'id': ids('d'),
                                   'v': rng.choice([0, 1, 1.5, 'nan', 'nan'])})
            elif roll < 0.8:
                if rng.random() < 0.3:
                    # ... through any of the operators of a tracked value
                    opr = rng.choice(['add', 'sub', 'mul', 'floordiv', 'mod', 'pow', 'lshift',
                                      'rshift', 'and', 'or', 'xor', 'pow3', 'pow3'])
                    arg = {'pow': rng.choice([0, 1, 2]), 'pow3': [rng.choice([1, 2, 3]), 4],
                           'floordiv': rng.choice([1, 2]), 'mod': rng.choice([2, 3]),
                           'lshift': 1, 'rshift': 1}.get(opr, rng.randint(0, 3))
                    driver.append({'op': 'settracked', 'i': rng.randrange(2), 'opr': opr,
                                   'arg': arg, 'id': ids('d')})
                elif rng.random() < 0.5:
                    driver.append({'op': 'settracked', 'i': rng.randrange(2),
                                   'add': rng.choice([-1, 1]), 'id': ids('d')})
                else:
                    driver.append({'op': 'settracked', 'i': rng.randrange(2),
                                   'v': rng.randint(0, 3), 'id': ids('d')})
            else:
                driver.append({'op': 'resource', 'r': 0,
                               'how': rng.choice(['increase', 'decrease', 'set']),
                               'amounts': {rng.choice(['a', 'b']): rng.randint(0, 2)},
                               'id': ids('d')})
    return driver


def finish_build(rng, ids, objects, tasks, roots):
    exprs = []
    for number in range(rng.randint(1, 3)):
        exprs.append(gen_expr(rng, tasks))
    # a connective that is an operand of several other conditions - one object inside all of them
    nested = [sub for expr in exprs if expr['k'] in ('and', 'or') for sub in expr['a']
              if sub['k'] in ('and', 'or')]
    if nested and rng.random() < 0.5:
        inner = rng.choice(nested)
        inner['share'] = 'inner'
        exprs.append({'k': rng.choice(['and', 'or']),
                      'a': [gen_atom(rng, tasks), copy.deepcopy(inner)]})
    waiter_no = 0
    for number, expr in enumerate(exprs):
        for _ in range(rng.randint(1, 5)):
            spec = dict(expr)
            if rng.random() < 0.6:
                spec['share'] = 'x%d' % number      # several waiters on the very same object
            steps = []
            if rng.random() < 0.15:
                # a wait for it that is abandoned in the turn in which it begins
                if rng.random() < 0.5:
                    steps.append({'op': 'scope', 'id': ids('ab'), 'n': {'k': 'instant'},
                                  'catch': False, 'children': [],
                                  'body': [{'op': 'wait', 'n': dict(spec), 'id': ids('aw')}]})
                else:
                    # ... by a child that is cancelled right after it subscribed (the cancel
                    # is queued behind the wake-up that makes it subscribe)
                    name = ids('cw')
                    steps.append({'op': 'scope', 'id': ids('ab'), 'n': None, 'catch': False,
                                  'children': [{'name': name, 'volatile': False, 'steps': [
                                      {'op': 'wait', 'n': dict(spec), 'id': ids('aw')}]}],
                                  'body': [{'op': 'wait', 'n': {'k': 'instant'}, 'id': ids('ai')},
                                           {'op': 'cancel', 'task': name, 'yield': False,
                                            'id': ids('ac')}]})
            arrive = rng.choice([0, 0, 0.5, 1, 1.5, 2, 3])
            if rng.scale != 1:
                arrive = rng.choice([0, 0.7, 0.7, 0.8, 0.8, 1.2, 1.2, 2.9])
            steps.append({'op': 'wait', 'n': {'k': 'ge', 't': arrive} if arrive
                          else {'k': 'instant'}, 'id': ids('a')})
            steps.append({'op': 'wait', 'n': spec, 'id': ids('w'), 'judge': True})
            if rng.random() < 0.3:
                steps.append({'op': 'wait', 'n': dict(spec), 'id': ids('w'), 'judge': True})
            roots.append({'name': 'w%d' % waiter_no, 'steps': steps})
            waiter_no += 1
    rng.shuffle(roots)
    if tasks:
        # helper tasks must exist before anyone builds `task.done` atoms
        roots.sort(key=lambda root: root['name'] != 'helpers')
    # (a negative start time puts the date 0 into the future)
    return {'objects': objects, 'roots': roots, 'start': rng.choice([0, 0, 0, -2, -0.5]),
            'till': None}, exprs


class ConditionMonitor:
    def __init__(self, env, exprs, stride):
        self.env = env
        self.sess = env.sess
        self.exprs = exprs
        self.stride = stride
        self.live = None
        self.stats = {'resumes_checked': 0, 'step_end_checks': 0, 'bool_checks': 0,
                      'real_waits': 0, 'immediate': 0}
        env.on_wait_end = self.wait_end
        self.sess.boundary_hooks.append(self.boundary)
        self.sess.step_end_hooks.append(self.step_end)

    def holds(self, spec, now):
        return model.holds(spec, self.env.shadow, now)

    def wait_end(self, ctx, step, notif):
        if not step.get('judge'):
            return
        env, sess = self.env, self.sess
        now = sess.now()
        started = None
        for event in reversed(sess.events):
            if event[1] == ctx.name and event[2] == 'start' and event[4] == step['id']:
                started = event[0]
                break
        self.stats['resumes_checked'] += 1
        if not self.holds(step['n'], now):
            sess.violation('c08:resumed-while-false',
                           '%s resumed from await %s at %r although it is false (shadow %s)' % (
                               ctx.name, step['n'], now, env.shadow))
        begun = getattr(ctx, '_wait_n', None)

    def boundary(self, sess, loop, target, signal):
        env = self.env
        if sess.n % self.stride:
            return
        if self.live is None:
            if any(root['name'] == 'helpers' for root in env.program['roots']) \
                    and not env.tasks:
                return
            # one object per expression, plus usim's own ~expr and ~~expr
            self.live = []
            for spec in self.exprs:
                base = make_notif(env, dict(spec))
                entry = [spec, base, None, None]
                if model_invertible(spec):
                    entry[2] = ~base
                    entry[3] = ~entry[2]
                self.live.append(entry)
        now = loop.time
        for spec, base, inverse, double in self.live:
            want = self.holds(spec, now)
            self.stats['bool_checks'] += 1
            got = bool(base)
            if got != want:
                sess.violation('c08:bool-disagrees',
                               'bool(%s) is %s at %r, evaluator says %s (shadow %s)' % (
                                   spec, got, now, want, env.shadow))
            if inverse is not None:
                if bool(inverse) != (not want):
                    sess.violation(
                        'c08:inverse-not-negation' + (':levels' if mentions_levels(spec) else ''),
                        'bool(~(%s)) is %s at %r but the expression itself is %s (shadow %s)' % (
                            spec, bool(inverse), now, want, env.shadow))
                if bool(double) != want:
                    sess.violation('c08:double-inverse',
                                   'bool(~~(%s)) is %s at %r, expected %s' % (
                                       spec, bool(double), now, want))

    def step_end(self, sess, loop, prev_time):
        env = self.env
        for actor, (step, n, notif) in list(env.waiting.items()):
            if not step.get('judge'):
                continue
            self.stats['step_end_checks'] += 1
            if self.holds(step['n'], prev_time):
                sess.violation(
                    'c08:missed-wakeup',
                    '%s is still waiting for %s at the end of time step %r in which it holds '
                    '(shadow %s)' % (actor, step['n'], prev_time, env.shadow))


def model_invertible(spec):
    return invertible(spec)


def mentions_levels(spec):
    if spec['k'] == 'levels':
        return len(spec['v']) > 1 or True
    if spec['k'] in ('and', 'or'):
        return any(mentions_levels(sub) for sub in spec['a'])
    if spec['k'] == 'inv':
        return mentions_levels(spec['a'])
    return False


def run_borrowed(case):
    """conditions on the levels of a *borrowed block* (the share handed out by borrow()): a
    waiter for 'the block is drained' is woken in the time step in which its holder gives the
    amount back - by leaving normally, by an exception, cancelled, or forcefully closed"""
    import usim
    from usim import Scope, Resources, Capacities, time, eternity
    rng = random.Random('%s/%s/c08-borrowed' % (case['seed'], case['index']))
    how = rng.choice(['normal', 'error', 'cancel', 'close', 'close'])
    hold = rng.choice([1, 2, 5])
    amount = rng.choice([1, 2, 3])
    arrive = rng.choice([0.5, 0.5, hold, hold + 1])
    kind = rng.choice([Resources, Capacities])
    compare = rng.choice(['eq', 'le', 'lt'])
    woken = []
    seen = []
    sess = Session()

    async def holder(resources, handout):
        try:
            async with resources.borrow(a=amount) as block:
                handout.append(block)
                if how in ('normal', 'error'):
                    await (time + hold)
                    if how == 'error':
                        raise KeyError('leave by exception')
                else:
                    await eternity
        except KeyError:
            pass

    async def watcher(handout):
        await (time + arrive)
        block = handout[0]
        drained = {'eq': lambda: block == {'a': 0}, 'le': lambda: block <= {'a': 0},
                   'lt': lambda: block < {'a': 1}}[compare]()
        handout.append(drained)
        await drained
        woken.append(time.now)

    async def main():
        resources = kind(a=3)
        handout = []
        async with Scope() as outer:
            outer.do(watcher(handout), volatile=True)
            async with Scope() as inner:
                task = inner.do(holder(resources, handout), volatile=(how == 'close'))
                await (time + hold)
                if how == 'cancel':
                    task.cancel()
            # the holder is gone: its block was drained during time step `hold`
            await (time + 3)
            seen.append((bool(handout[1]) if len(handout) > 1 else None,
                         dict(handout[0].levels), dict(resources.levels)))
            await (time + 3)

    root = main()
    outcome = sess.run(root)
    root.close()
    violations = [dict(v) for v in sess.violations if v['mechanism'].startswith('kernel-')]
    expected = max(hold, arrive)
    scenario = '%s(a=3).borrow(a=%d) left by %s at %r, waiter for `block %s` arriving at %r' % (
        kind.__name__, amount, how, hold, compare, arrive)
    if outcome[0] != 'ok':
        violations.append({'mechanism': 'c08:run-failed',
                           'msg': '%s: run ended with %r' % (scenario, outcome[1])})
    elif woken != [expected]:
        violations.append({'mechanism': 'c08:missed-wakeup',
                           'msg': '%s: the waiter was woken at %s, expected at %r; afterwards the '
                                  'condition, the block and the supply read %s' % (
                                      scenario, woken, expected, seen)})
    for vio in violations:
        vio['case'] = dict(case)
    return {'evals': 1, 'sigs': [scenario], 'violations': violations, 'sample': None,
            'stats': {'resumes_checked': 1, 'borrowed_block_waiters': 1, 'real_waits': 1,
                      'activations': sess.n}}


def run_snapshots(case):
    """conditions on resource levels whose operand is a snapshot taken from `resources.levels`
    (a baseline to compare with later): whatever happens to the supply afterwards, the snapshot
    is what it was - the waiter resumes exactly when the levels relate to *it* as demanded"""
    import usim
    from usim import time, Resources, Scope
    rng = random.Random('%s/%s/c08-snap' % (case['seed'], case['index']))
    start_levels = {'a': rng.randint(1, 3), 'b': rng.randint(1, 3)}
    how = rng.choice(['gt', 'ge-other', 'not-le', 'lt', 'ne'])
    # the changes: (operation, amounts) one per time unit; the last one makes the condition true
    if how == 'lt':
        changes = [('increase', {'a': 1}), ('set', dict(start_levels)),
                   ('set', {'a': start_levels['a'] - 1, 'b': start_levels['b'] - 1})]
    elif how == 'ne':
        changes = [('set', dict(start_levels)), ('increase', {'b': 1})]
    else:
        changes = [('set', dict(start_levels)), ('set', {'a': start_levels['a'] + 1}),
                   ('set', {'a': start_levels['a'] + 1, 'b': start_levels['b'] + 2})]
    rng.shuffle(changes[:-1])
    log = []
    violations = []

    def relation(levels, baseline):
        keys = sorted(baseline)
        if how in ('gt', 'not-le'):
            return (all(levels[k] > baseline[k] for k in keys) if how == 'gt'
                    else not all(levels[k] <= baseline[k] for k in keys))
        if how == 'ge-other':
            return all(levels[k] >= baseline[k] + 1 for k in keys)
        if how == 'lt':
            return all(levels[k] < baseline[k] for k in keys)
        return any(levels[k] != baseline[k] for k in keys)

    async def main():
        res = Resources(**start_levels)
        baseline = res.levels                   # a snapshot, kept by the program
        kept = {key: getattr(baseline, key) for key in start_levels}
        if how == 'gt':
            cond = res > baseline
        elif how == 'not-le':
            cond = ~(res <= baseline)
        elif how == 'ge-other':
            cond = res >= type(baseline)(**{k: v + 1 for k, v in kept.items()})
        elif how == 'lt':
            cond = res < baseline
        else:
            cond = res != baseline

        async def waiter():
            await cond
            log.append(('resumed', time.now, {k: getattr(res.levels, k) for k in kept}))

        async def driver():
            for operation, amounts in changes:
                await (time + 1)
                await getattr(res, operation)(**amounts)
                log.append(('snapshot', {k: getattr(baseline, k) for k in kept}))
        async with Scope() as scope:
            scope.do(waiter())
            scope.do(driver())
        log.append(('kept', kept))

    sess = Session()
    outcome = sess.run(main())
    violations = [dict(v) for v in sess.violations if v['mechanism'].startswith('kernel-')]
    what = 'condition %s on levels against a snapshot of resources.levels %s, changes %s' % (
        how, start_levels, changes)
    # when does the relation hold first, by plain arithmetic?
    levels = dict(start_levels)
    due = None
    for number, (operation, amounts) in enumerate(changes):
        for key, value in amounts.items():
            levels[key] = value if operation == 'set' else levels[key] + value
        if due is None and relation(levels, start_levels):
            due = number + 1
    resumed = [entry[1] for entry in log if entry[0] == 'resumed']
    snapshots = [entry[1] for entry in log if entry[0] == 'snapshot']
    if outcome[0] != 'ok':
        violations.append({'mechanism': 'c08:run-failed', 'msg': '%s: %r' % (what, outcome[1])})
    elif any(snap != start_levels for snap in snapshots):
        violations.append({'mechanism': 'c08:bool-disagrees',
                           'msg': '%s: the snapshot changed under the program: %s' % (
                               what, snapshots)})
    elif resumed != ([due] if due is not None else []):
        violations.append({'mechanism': 'c08:missed-wakeup' if not resumed
                           else 'c08:resumed-while-false',
                           'msg': '%s: resumed at %s, the relation holds first at %s' % (
                               what, resumed, due)})
    for vio in violations:
        vio['case'] = dict(case)
    return {'evals': 1, 'sigs': [sess.signature()], 'violations': violations, 'sample': None,
            'stats': {'snapshot_conditions': 1, 'activations': sess.n}}


def run_case(case):
    if case['index'] % 25 == 24:
        return run_borrowed(case)
    if case['index'] % 25 == 13:
        return run_snapshots(case)
    if case['index'] % 25 == 3:
        from .c07 import dates_across_runs
        violations, sess = dates_across_runs(
            case, random.Random('%s/%s/c08-dates' % (case['seed'], case['index'])), prefix='c08')
        return {'evals': 2, 'sigs': [sess.signature()], 'violations': violations, 'sample': None,
                'stats': {'dates_across_simulations': 1, 'activations': sess.n}}
    program, exprs = build(case)
    sess = Session()
    holder = {}

    def prepare(env):
        holder['monitor'] = ConditionMonitor(env, exprs, stride=1 if case['tier'] == 'thorough'
                                             else 2)
    env, outcome = execute(program, sess, prepare, lifecycle=False)
    monitor = holder['monitor']
    violations = []
    for vio in sess.violations:
        if vio['mechanism'].startswith(('c08:', 'kernel-', 'internal-error', 'run-ended',
                                        'leaked', 'harness')):
            violations.append(dict(vio))
    if env.outcome != 'ok':
        violations.append({'mechanism': 'c08:run-failed',
                           'msg': 'run() ended with %s' % env.outcome})
    # re-activation between start and end of every judged wait; count real waits
    started = {}
    for index, event in enumerate(sess.events):
        if event[2] == 'start' and event[3] == 'wait':
            started[(event[1], event[4])] = event[0]
        elif event[2] == 'end' and event[3] == 'wait':
            key = (event[1], event[4])
            if key in started and started[key] != event[0]:
                monitor.stats['real_waits'] += 1
            elif key in started:
                monitor.stats['immediate'] += 1
    stats = dict(monitor.stats)
    stats['activations'] = sess.n
    for vio in violations:
        vio['case'] = dict(case)
    sample = None
    if case['index'] < 16:
        sample = {'program': program, 'expressions': exprs,
                  'events': [list(map(str, ev)) for ev in sess.events[:30]]}
    nontrivial = monitor.stats['real_waits'] > 0
    return {'evals': 1, 'sigs': [sess.signature()] if nontrivial else [], 'stats': stats,
            'violations': violations, 'sample': sample}
