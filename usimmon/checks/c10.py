"""C10 - Queue delivers every accepted item exactly once, in order, to waiters in order"""
import random

from .. import bootstrap  # noqa: F401
from .. import inject

import usim
import usim.py as usimpy
from usim.py.exceptions import Interrupt as UsimInterrupt
from usim import Queue, StreamClosed, time, instant

PROPERTY = 'C10'
LEVEL = 'fault_enumeration'
RULE = (
    '1-4 producers and 1-5 consumers (single `await queue` gets and `async for` iteration, fast '
    'and slow) on one queue, put/get/close times on a colliding grid; in 40% of the scenarios all items are equal, equally hashing, falsy objects (told apart by identity only) and in 40% the Queue object has served an earlier complete run(); every scenario is run '
    'un-injected and with cancel / until-interrupt / close injected at activation boundaries of '
    'any participant (quick: sampled; thorough: every boundary x participant x kind + double '
    'faults) - this includes "woken for an item but signalled before taking it" and "signalled '
    'while waiting for the read mutex". Offline FIFO-queue checker over the event log with '
    'unique item ids: no duplicate, no loss (final buffer content is added to the history), no '
    'invented item, receives in put order, waiting receivers served in request order, '
    'StreamClosed only when nothing is buffered, nobody left waiting at quiescence while items are buffered or the queue is closed, put after close rejected and stores nothing. '
    'non-trivial = a signal landed inside a participant, or the reference run; distinct = trace'
)
RULE = RULE + (' Further: payloads equal to everything / None / exception instances, bursts up to 70000, consumers that are SimPy-style processes, clocks that absorb every delay or start below zero.')

LEVEL_TEXT = (
    'Fault enumeration by runtime monitoring: history checker (exactly-once, FIFO, no-loss) over '
    'the recorded put/get/close events of the real Queue, with signals injected at every '
    'activation boundary of every participant in the thorough tier. Operations that did not '
    'complete may or may not have taken effect (kept open, as in Elle).')
TECHNIQUE = 'runtime monitoring: offline exactly-once/FIFO history checker with unique item ids, signal injection at activation boundaries'
ASSUMPTIONS = [
    'the final buffer content is read from Queue._buffer at quiescence (left-over waiters of a '
    'finished simulation hold the read mutex, so a public drain is impossible)',
]
REQUIRED_STATS = ['items_received', 'gets_waited', 'signals_landed', 'struck:cancel',
                  'struck:interrupt', 'struck:close']

GRID = [0, 0, 0, 0.5, 0.5, 1, 1, 2]


class Twin:
    """payload that is equal to everything (like mock.ANY), hashes alike and is falsy: streams must treat
    messages as opaque objects (identity), never compare, deduplicate or truth-test them"""
    __slots__ = ('ident',)

    def __init__(self, ident):
        self.ident = ident

    def __eq__(self, other):
        return True         # ... equal to anything at all, private end markers included

    def __ne__(self, other):
        return False

    def __hash__(self):
        return 0

    def __bool__(self):
        return False

    def __repr__(self):
        return 'Twin(%s)' % self.ident


ODD_TYPES = (StreamClosed, StopAsyncIteration, StopIteration, GeneratorExit, KeyError,
             TimeoutError)


class Blank:
    """payload whose truth value is false and that is equal to itself only (an empty record, an
    empty batch): still a message like any other"""
    __slots__ = ('ident',)

    def __init__(self, ident):
        self.ident = ident

    def __bool__(self):
        return False

    def __len__(self):
        return 0

    def __repr__(self):
        return 'Blank(%s)' % self.ident


def odd(ident):
    """payloads that are exception *instances* - among them the very types that streams use
    internally to signal their end: as a payload they are values like any other"""
    payload = ODD_TYPES[sum(map(ord, ident)) % len(ODD_TYPES)](ident)
    payload.ident = ident
    return payload


def unwrap(payload):
    if isinstance(payload, (Twin, Blank, BaseException)):
        return payload.ident
    return payload


def n_cases(tier):
    return 400 if tier == 'quick' else 1500


def make_case(seed, index, tier):
    rng = random.Random('%s/%s/c10' % (seed, index))
    producers = []
    for number in range(rng.randint(1, 4)):
        ops = []
        for _ in range(rng.randint(1, 5)):
            ops.append({'offset': rng.choice(GRID), 'op': 'put'})
        if rng.random() < 0.35:
            ops.append({'offset': rng.choice(GRID), 'op': 'close'})
            if rng.random() < 0.5:
                ops.append({'offset': rng.choice(GRID), 'op': 'put'})
        producers.append({'name': 'p%d' % number, 'ops': ops})
    consumers = []
    for number in range(rng.randint(1, 5)):
        consumers.append({'name': 'c%d' % number,
                          'mode': rng.choice(['get', 'get', 'iter', 'iter+get', 'process']),
                          'count': rng.randint(1, 5), 'offset': rng.choice(GRID),
                          'work': rng.choice([0, 0, 0.5, 1])})
    burst = 0
    if index % 57 == 7:
        # a backlog of tens of thousands of items before anybody drains it
        burst = 70000 if index == 7 else rng.choice([300, 5000])
        producers[0]['ops'].insert(0, {'offset': 0, 'op': 'burst', 'n': burst})
        consumers = consumers[:2]
        consumers[0].update(mode='iter', count=10 ** 9, offset=2, work=0.001)
    case = {'seed': seed, 'index': index, 'tier': tier, 'burst': burst,
            'scenario': {'producers': producers, 'consumers': consumers},
            'twins': rng.random() < 0.4, 'reused': rng.random() < 0.4,
            'nones': rng.random() < 0.25, 'early': rng.random() < 0.3,
            'odd': rng.random() < 0.25,
            # a clock that absorbs every delay of the scenario (one date, many batches)
            'start': rng.choice([1.7e18, 2.0 ** 70, -1.5, -1, -0.5]) if rng.random() < 0.09 and not burst else 0}
    if burst > 1000:
        # (a None payload carries no id: the checker looks every one of them up in the buffer,
        # which is quadratic in the backlog - ten minutes per execution for 70000 items)
        case['nones'] = False
    return case


class QueueChecker:
    def __init__(self, arena, queue):
        self.arena = arena
        self.sess = arena.sess
        self.queue = queue
        self.put_order = []        # items whose put() was entered while open, in order
        self.none_idents = set()   # items whose payload is None
        self.put_done = set()
        self.rejected = set()
        self.received = []         # (item, consumer)
        self.received_set = set()
        self.put_set = set()
        self.head = 0              # everything before this index of put_order is accounted for
        self.pending = []          # consumers waiting, in request order
        self.closed = False
        self.max_transit = 0       # number of process consumers (set by the scenario)
        self.broken = False
        self.allow_lost = 0        # receives of struck process consumers that may have happened
        self.stats = {'items_received': 0, 'gets_waited': 0, 'gets_closed': 0,
                      'puts_rejected': 0, 'withdrawn': 0, 'puts_interrupted': 0,
                      'contended_receives': 0}
        self.sess.quiescence_hooks.append(self.quiescence)

    def violation(self, mechanism, msg):
        self.sess.violation('c10:' + mechanism, msg)

    def buffered(self):
        got = self.received_set
        return [item for item in self.put_order[self.head:]
                if item not in got and item not in self.rejected]

    def oldest_buffered(self):
        """first item of the shadow buffer, in O(1) amortised (large backlogs)"""
        order = self.put_order
        while self.head < len(order) and (order[self.head] in self.received_set
                                          or order[self.head] in self.rejected):
            self.head += 1
        return order[self.head] if self.head < len(order) else None

    # producers
    def put_start(self, who, item):
        self.arena.log(who, 'put-start', item)
        self.put_order.append(item)
        self.put_set.add(item)

    def put_done_add(self, item):
        self.put_done.add(item)
        if self.closed_before(item):
            self.violation('put-accepted-after-close',
                           'put of %s was accepted although the queue was closed' % item)

    def closed_before(self, item):
        return item in getattr(self, 'started_closed', set())

    def put_start_closed_mark(self, item):
        self.__dict__.setdefault('started_closed', set()).add(item)

    def put_rejected(self, who, item):
        self.arena.log(who, 'put-rejected', item)
        self.stats['puts_rejected'] += 1
        self.rejected.add(item)
        if item not in getattr(self, 'started_closed', set()):
            self.violation('put-rejected-while-open',
                           'put of %s raised StreamClosed although nobody had closed' % item)

    def close_start(self, who):
        self.arena.log(who, 'close-start')
        self.closed = True

    # consumers
    def get_start(self, who):
        self.arena.log(who, 'get-start')
        self.pending.append(who)

    def got(self, who, item):
        if item is None:
            # a None payload carries no id: it stands for the oldest buffered None item
            item = next((other for other in self.buffered() if other in self.none_idents), None)
        self.arena.log(who, 'got', item)
        self.stats['items_received'] += 1
        if self.pending and self.pending[0] != who:
            self.violation('receiver-order',
                           '%s received %s but %s started waiting earlier' % (
                               who, item, self.pending[0]))
        if len(self.pending) > 1:
            self.stats['contended_receives'] += 1
        if who in self.pending:
            self.pending.remove(who)
        if item in self.received_set:
            self.violation('duplicate', 'item %s received twice (%s)' % (item, who))
        if item not in self.put_set and item not in self.put_order:
            self.violation('invented', 'item %s was never put' % (item,))
        elif item in self.rejected:
            self.violation('rejected-item-received', 'item %s of a rejected put received' % item)
        elif self.oldest_buffered() != item and len(self.sess.violations) < 20 \
                and not self.broken:
            # (slow path) items in transit to a process consumer are excused
            transit = self.in_transit()
            if len(transit) > self.max_transit + self.allow_lost:
                # every process consumer holds at most one item between taking and reporting it
                self.broken = True
                self.violation('lost', '%d items (%s ...) have left the buffer without being '
                                       'received; at most %d can be in transit to process '
                                       'consumers' % (len(transit), transit[:3],
                                                      self.max_transit))
            expected = [other for other in self.buffered() if other == item
                        or other not in transit]
            if expected and expected[0] != item:
                self.violation('fifo', '%s received %s but the oldest buffered item is %s' % (
                    who, item, expected[0]))
        self.received.append((item, who))
        self.received_set.add(item)

    def get_closed(self, who):
        self.arena.log(who, 'get-closed')
        self.stats['gets_closed'] += 1
        if who in self.pending:
            self.pending.remove(who)
        if not self.closed:
            self.violation('closed-while-open', '%s got StreamClosed but nobody closed' % who)
        transit = self.in_transit()
        left = [item for item in self.buffered() if item not in transit]
        if left:
            self.violation('closed-while-buffered',
                           '%s got StreamClosed while %s are still buffered' % (who, left))

    def struck_with_open_get(self, who):
        """an operation that did not complete may or may not have taken effect: an item that
        vanished from the buffer with the struck consumer counts as taken by it"""
        if who in self.pending:
            self.pending.remove(who)
        self.allow_lost += 1
        self.stats['struck_process_receives'] = self.stats.get('struck_process_receives', 0) + 1

    def in_transit(self):
        """items that have left the real buffer but have not been reported as received yet:
        a process of the compatibility layer takes an item in one activation and hands it to
        its generator in a later one"""
        real_buffer = getattr(self.queue, '_buffer', None)
        if real_buffer is None:
            return []       # (a queue that keeps its items elsewhere: nothing to look at)
        real = {unwrap(item) for item in real_buffer}
        return [item for item in self.buffered() if item not in real]

    def withdrawn(self, who):
        self.arena.log(who, 'withdrawn')
        self.stats['withdrawn'] += 1
        if who in self.pending:
            self.pending.remove(who)

    def quiescence(self, sess, loop):
        real_buffer = getattr(self.queue, '_buffer', None)
        if real_buffer is None:
            # The final accounting reads the private buffer of the queue. A queue that keeps
            # its items elsewhere is still judged by everything observed through the public
            # operations; only this end-of-run accounting is skipped (and counted).
            self.stats['final_accounting_skipped'] = self.stats.get(
                'final_accounting_skipped', 0) + 1
            return
        final = [unwrap(item) for item in real_buffer]
        pending_nones = [item for item in self.buffered() if item in self.none_idents]
        final = [item if item is not None else (pending_nones.pop(0) if pending_nones else None)
                 for item in final]
        got = self.received_set
        final_set = set(final)
        lost = [item for item in self.put_done
                if item not in got and item not in final_set and item not in self.rejected]
        if len(lost) > self.allow_lost:
            self.violation('lost', 'items %s of completed puts were neither received nor are '
                                   'they still buffered (%d receives of struck process consumers '
                                   'may account for as many)' % (lost, self.allow_lost))
        for item in final:
            if item in got:
                self.violation('duplicate', 'item %s was received and is still buffered' % item)
            if item in self.rejected:
                self.violation('rejected-item-stored', 'item %s of a rejected put is buffered'
                               % item)
        if final != [item for item in self.put_order if item in final_set]:
            self.violation('fifo', 'final buffer %s is not in put order' % final)
        # `closed` tells whether the queue has been closed
        self.stats['closed_property_checks'] = self.stats.get('closed_property_checks', 0) + 1
        if self.queue.closed is not self.closed:
            self.violation('closed-property', 'queue.closed is %r at quiescence, close() was %s'
                           % (self.queue.closed, 'called' if self.closed else 'never called'))
        # nobody keeps waiting while there is something to receive (or the queue is closed)
        self.stats['quiescent_waiters_checked'] = self.stats.get(
            'quiescent_waiters_checked', 0) + len(self.pending)
        if self.pending and final:
            self.violation('waiter-starved',
                           'at quiescence %s still wait for an item while %s are buffered' % (
                               self.pending, final))
        elif self.pending and getattr(self.queue, '_closed', False):
            self.violation('waiter-not-closed',
                           'at quiescence %s still wait on a closed, empty queue' % (
                               self.pending,))
        self.stats['puts_interrupted'] += len(
            [item for item in self.put_order
             if item not in self.put_done and item not in self.rejected])


def earlier_simulation(queue):
    """a complete, separate run() in which the same Queue object was used (and left empty)"""
    import usim

    async def taker(count):
        for _ in range(count):
            await queue

    async def main():
        async with usim.Scope() as scope:
            scope.do(taker(2))
            scope.do(taker(1))
            await (time + 1)
            for item in ('x', 'y', 'z'):
                await queue.put(item)
            # receivers that are forcefully closed while waiting when that simulation ends
            scope.do(taker(1), volatile=True)
            scope.do(taker(1), volatile=True)
            await (time + 1)
    usim.run(main())


def build_for(case):
    scenario = case['scenario']

    def build(arena):
        arena.start = case.get('start', 0)
        queue = inject.made(case, Queue)
        wrap = Twin if case.get('twins') else odd if case.get('odd') else str
        if wrap is str and case['index'] % 3 == 1:
            wrap = Blank
        if case.get('nones'):
            # every other item is None (a valid item: it must not look like 'nothing there')
            def wrap(item, plain=wrap):
                if len(checker.put_order) % 2 == 0:
                    checker.none_idents.add(item)
                    return None
                return plain(item)
        if case.get('reused'):
            earlier_simulation(queue)
        checker = QueueChecker(arena, queue)
        checker.max_transit = sum(1 for spec in scenario['consumers']
                                  if spec['mode'] == 'process')

        def producer(spec):
            name = spec['name']

            async def run():
                for number, op in enumerate(spec['ops']):
                    item = '%s.%d' % (name, number)
                    prepared = None
                    if case.get('early') and number % 2 == 0 and op['op'] != 'burst':
                        # the awaitable of the operation is made some time before it is awaited
                        # (like `scope.do(queue.put(x), after=...)`): it acts when awaited
                        prepared = queue.close() if op['op'] == 'close' else queue.put(wrap(item))
                        checker.stats['prepared_early'] = checker.stats.get('prepared_early', 0) + 1
                    if op['offset']:
                        await (time + op['offset'])
                    if op['op'] == 'close':
                        checker.close_start(name)
                        await (prepared if prepared is not None else queue.close())
                        continue
                    if op['op'] == 'burst':
                        for sub_number in range(op['n']):
                            item = '%s.%d.%d' % (name, number, sub_number)
                            checker.put_order.append(item)
                            checker.put_set.add(item)
                            try:
                                await queue.put(wrap(item))
                            except StreamClosed:
                                checker.rejected.add(item)
                                break
                            checker.put_done.add(item)
                            if sub_number % 500 == 499:
                                await (time + 0.001)
                        checker.stats['burst_items'] = checker.stats.get('burst_items', 0) + op['n']
                        continue
                    if checker.closed:
                        checker.put_start_closed_mark(item)
                    checker.put_start(name, item)
                    try:
                        await (prepared if prepared is not None else queue.put(wrap(item)))
                    except StreamClosed:
                        checker.put_rejected(name, item)
                    else:
                        checker.put_done_add(item)
                        arena.log(name, 'put-done', item)
            return run

        def consumer(spec):
            name = spec['name']

            async def run_process():
                # the consumer is a process of the SimPy compatibility layer (`item = yield
                # queue`); "interrupt" strikes call process.interrupt()
                env = usimpy.Environment()

                state = {'open': False}

                def receiver():
                    count = 0
                    while count < spec['count']:
                        checker.get_start(name)
                        state['open'] = True
                        try:
                            item = unwrap((yield queue))
                        except UsimInterrupt:
                            checker.withdrawn(name)
                            continue
                        except StreamClosed:
                            checker.get_closed(name)
                            return
                        except BaseException:
                            checker.withdrawn(name)
                            raise
                        state['open'] = False
                        checker.got(name, item)
                        checker.stats['gets_waited'] += 1
                        checker.stats['process_receives'] = checker.stats.get(
                            'process_receives', 0) + 1
                        count += 1
                        if spec['work']:
                            try:
                                yield env.timeout(spec['work'])
                            except UsimInterrupt:
                                pass
                try:
                    async with env:
                        process = env.process(receiver())
                        arena.custom_interrupt[name] = \
                            lambda: process.interrupt('struck') if process.is_alive else None
                        await process
                finally:
                    arena.custom_interrupt.pop(name, None)
                    if state['open']:
                        # the activity hosting the process was struck while a receive was open:
                        # the layer may have taken an item that the generator never got to see
                        checker.struck_with_open_get(name)

            async def run():
                if spec['offset']:
                    await (time + spec['offset'])
                if spec['mode'] == 'process' and not case.get('nones'):
                    await run_process()
                elif spec['mode'] in ('get', 'process'):
                    for _ in range(spec['count']):
                        checker.get_start(name)
                        try:
                            item = unwrap(await queue)
                        except StreamClosed:
                            checker.get_closed(name)
                            break
                        except BaseException:
                            checker.withdrawn(name)
                            raise
                        checker.got(name, item)
                        checker.stats['gets_waited'] += 1
                        if spec['work']:
                            await (time + spec['work'])
                else:
                    count = 0
                    checker.get_start(name)
                    try:
                        async for item in queue:
                            item = unwrap(item)
                            checker.got(name, item)
                            checker.stats['gets_waited'] += 1
                            count += 1
                            if count >= spec['count']:
                                break
                            if spec['mode'] == 'iter+get' and count % 2 == 1:
                                # a single get from inside the iteration over the same queue
                                checker.get_start(name)
                                try:
                                    extra = unwrap(await queue)
                                except StreamClosed:
                                    checker.get_closed(name)
                                else:
                                    checker.got(name, extra)
                                    checker.stats['gets_waited'] += 1
                            if spec['work']:
                                await (time + spec['work'])
                            checker.get_start(name)
                        else:
                            checker.get_closed(name)
                    except BaseException:
                        checker.withdrawn(name)
                        raise
            return run
        participants = [(spec['name'], producer(spec)) for spec in scenario['producers']]
        participants += [(spec['name'], consumer(spec)) for spec in scenario['consumers']]
        order = random.Random(case['index']).sample(participants, len(participants))
        background = []
        if case['index'] % 3 == 0:
            # another, independent queue is busy at the same time: queues share nothing
            other = inject.made(case, Queue)

            async def elsewhere():
                async def taker():
                    async for _ in other:
                        await (time + 0.5)

                async with usim.Scope() as scope:
                    scope.do(taker(), volatile=True)
                    scope.do(taker(), volatile=True)
                    for number in range(8):
                        await other.put('other-%d' % number)
                        await (time + 0.5)
                    await other.close()
            background.append(elsewhere())
        return order, background, checker
    return build


def check(sess, arena, checker, outcome, plan):
    found = inject.kernel_violations(sess, outcome)
    found += [dict(v) for v in sess.violations if v['mechanism'].startswith('c10:')]
    return found


def run_case(case):
    rng = random.Random('%s/%s/c10-inj' % (case['seed'], case['index']))
    if case.get('burst'):
        return inject.explore(case, build_for(case), rng, check, case['tier'],
                              quick_samples=2, max_plans=2 if case['burst'] > 10000 else 8,
                              budget=800000)
    return inject.explore(case, build_for(case), rng, check, case['tier'],
                          quick_samples=12, max_plans=400)
