"""C13 - Pipe shares throughput proportionally; transfers end at the fluid-model time"""
import random

from .. import bootstrap  # noqa: F401
from .. import inject
from ..models import fluid

import usim
from usim import Pipe, UnboundedPipe, time

PROPERTY = 'C13'
LEVEL = 'fault_enumeration'
RULE = (
    'pipe throughput in {1/2, 1, 3, 8, inf (UnboundedPipe and Pipe(inf))}, 1-8 participants each doing 1-3 transfers with '
    'volumes {0, 1/8 .. 64} and limits {None, 1/4 .. 16, > throughput, 2**60, 1e17, inf}, overlapping start '
    'times, joins and leaves mid-flight; un-injected run plus cancel / until-interrupt / close '
    'of a participant injected at activation boundaries (quick: sampled; thorough: every '
    'boundary x participant x kind). Oracle: every completion time logged by the real code is '
    'compared (relative tolerance 1e-9) with an exact Fraction processor-sharing model in which '
    'a struck participant is gone from the moment of the strike; runs in which a strike '
    'coincides with a start/completion of the same participant are counted as ambiguous and not '
    'judged. Early warnings on private state at time-step ends: number of subscriptions = '
    'transfers in flight, sum of limit x scale <= throughput. non-trivial = >= 2 transfers '
    'overlapped; distinct = activation trace'
)
RULE = RULE + (' Further: near-ties with a real remainder, the largest float as a limit, crowds of minute shares (closed form), transfers requested early / dropped unstarted, clocks starting below zero.')

LEVEL_TEXT = (
    'Fault enumeration by runtime monitoring against an exact fluid model: completion times of '
    'the real Pipe are compared with a Fraction-based processor-sharing simulation, including '
    'the freeing of bandwidth when a transfer is cancelled / interrupted / closed at any '
    'activation boundary.')
TECHNIQUE = 'runtime monitoring: logged completion times vs exact Fraction fluid model, signal injection at activation boundaries'
ASSUMPTIONS = [
    'the sum of the limits of the transfers in flight is a finite float (two transfers limited '
    'to sys.float_info.max each make the unchanged pipe divide by zero - not generated)','relative tolerance 1e-9 for float rounding (observed error ~5e-16)']
REQUIRED_STATS = ['completions_checked', 'overlapping_runs', 'signals_landed', 'struck:cancel',
                  'struck:interrupt', 'struck:close']

VOLUMES = [0, 0.125, 0.5, 1, 1, 2, 3, 5, 8, 16, 64]
# huge finite limits (practically unlimited) swamp the others in float sums: 2**60, 1e17
LIMITS = [None, None, None, 0.25, 0.5, 1, 2, 4, 16, 'inf', 2.0 ** 60, 1e17,
          # "no limit" spelled as the largest float there is
          1.7976931348623157e308]
OFFSETS = [0, 0, 0, 0.5, 1, 1, 2, 3]


def n_cases(tier):
    return 400 if tier == 'quick' else 1500


def make_case(seed, index, tier):
    rng = random.Random('%s/%s/c13' % (seed, index))
    throughput = rng.choice([0.5, 1, 1, 3, 3, 8, 'inf', 'pipe-inf'])
    users = []
    for number in range(rng.randint(1, 8)):
        rounds = []
        for _ in range(rng.randint(1, 3)):
            rounds.append([rng.choice(OFFSETS), rng.choice(VOLUMES), rng.choice(LIMITS)])
        users.append({'name': 'u%d' % number, 'rounds': rounds})
    if throughput not in ('inf', 'pipe-inf') and rng.random() < 0.2:
        # a background load: a transfer of infinite volume that runs until it is interrupted
        users.append({'name': 'bg', 'until': rng.choice([0.5, 1, 2, 3, 5]),
                      'rounds': [[rng.choice(OFFSETS), 'inf', rng.choice([None, 0.5, 1, 4])]]})
    # (at most one transfer per scenario uses the largest float as its limit: with two of them
    # the *sum* of the limits is no float any more - beyond the arithmetic the statement assumes)
    seen_largest = False
    for user in users:
        for round_ in user['rounds']:
            if round_[2] == LIMITS[-1]:
                if seen_largest:
                    round_[2] = 2.0 ** 60
                seen_largest = True
    scenario = {'throughput': throughput, 'users': users}
    if index % 20 == 9:
        # a near-tie that is *not* a matter of rounding: a transfer that has a real remainder
        # (2**-k of its volume, far above float noise) left when a transfer with a vastly larger
        # limit joins is starved by it for a long time
        k = rng.choice([30, 40, 44])
        big = 2.0 ** rng.choice([40, 50])
        volume = rng.choice([1, 2, 4])
        users = [{'name': 'u0', 'rounds': [[0, volume, volume]]},
                 {'name': 'u1', 'rounds': [[1 - 2.0 ** -k, rng.choice([100, 1000]), big]]}]
        return {'seed': seed, 'index': index, 'tier': tier,
                'scenario': {'throughput': volume, 'users': users}}
    if rng.random() < 0.3:
        scenario['other_pipe'] = {
            'throughput': rng.choice([0.5, 1, 3]),
            'transfers': [[rng.choice(OFFSETS), rng.choice([1, 4, 16, 64]),
                           rng.choice([None, 0.5, 2, 16])] for _ in range(rng.randint(1, 4))]}
    if isinstance(throughput, (int, float)) and rng.random() < 0.06:
        # the same scenario in units that are 10^15 times smaller: volumes, limits and throughput
        # around 1e-15 - times are ratios and stay what they were
        micro = 1e-15
        scenario['throughput'] = throughput * micro
        for user in users:
            # (the largest float becomes an ordinary huge limit: 1e293 times the throughput
            # makes every other share underflow to nothing)
            user['rounds'] = [[offset, volume if volume == 'inf' else volume * micro,
                               limit if limit in (None, 'inf') else
                               (2.0 ** 60 if limit == LIMITS[-1] else limit) * micro]
                              for offset, volume, limit in user['rounds']]
        scenario.pop('other_pipe', None)
    return {'seed': seed, 'index': index, 'tier': tier, 'scenario': scenario}


class PipeChecker:
    def __init__(self, arena, pipe, scenario):
        self.arena = arena
        self.sess = arena.sess
        self.pipe = pipe
        self.scenario = scenario
        self.inflight = 0
        self.deadlines = {}        # background loads: name -> time at which they are interrupted
        self.max_inflight = 0
        self.ends = {user['name']: [] for user in scenario['users']}
        self.stats = {'completions_checked': 0, 'overlapping_runs': 0, 'ambiguous_runs': 0,
                      'subscription_checks': 0, 'max_rel_error_e18': 0, 'transfers_struck': 0}
        self.sess.step_end_hooks.append(self.step_end)

    def violation(self, mechanism, msg):
        self.sess.violation('c13:' + mechanism, msg)

    def step_end(self, sess, loop, prev_time):
        pipe = self.pipe
        subs = getattr(pipe, '_subscriptions', None)
        if subs is None or self.scenario['throughput'] in ('inf', 'pipe-inf'):
            return
        self.stats['subscription_checks'] += 1
        if len(subs) != self.inflight:
            self.violation('subscriptions-vs-inflight',
                           'pipe has %d subscriptions at the end of time step %r but %d '
                           'transfers are in flight' % (len(subs), prev_time, self.inflight))
        scale = getattr(pipe, '_throughput_scale', None)
        if scale is None:
            return      # (private bookkeeping of another shape: only the public behaviour counts)
        flow = sum(subs.values()) * scale
        if flow > pipe.throughput * (1 + 1e-12):
            self.violation('flow-exceeds-throughput',
                           'combined flow %r exceeds throughput %r' % (flow, pipe.throughput))

    def judge(self):
        scenario = self.scenario
        throughput = float('inf') if scenario['throughput'] in ('inf', 'pipe-inf') \
            else scenario['throughput']
        participants = {user['name']: [(r[0], float('inf') if r[1] == 'inf' else r[1],
                                        float('inf') if r[2] == 'inf' else r[2])
                                       for r in user['rounds']]
                        for user in scenario['users']}
        removals = {}
        # (the model counts time from the start of the run; some runs start below zero)
        base = getattr(self.arena, 'start', 0)
        for n, kind, name, when in self.arena.struck:
            removals.setdefault(name, when - base)
        for name, when in self.deadlines.items():
            removals[name] = min(when - base, removals.get(name, when - base))
        expected, ambiguous = fluid.simulate(throughput, participants, removals)
        if self.max_inflight >= 2:
            self.stats['overlapping_runs'] += 1
        if ambiguous:
            self.stats['ambiguous_runs'] += 1
            return
        for name, ends in self.ends.items():
            ends = [when - base for when in ends]
            want = expected[name]
            if len(ends) != len(want):
                self.violation(
                    'completions-differ',
                    '%s completed %d transfers at %s, the fluid model expects %d at %s '
                    '(removed at %s)' % (name, len(ends), ends, len(want),
                                         [float(w) for w in want], removals.get(name)))
                continue
            for got, exact in zip(ends, want):
                self.stats['completions_checked'] += 1
                exact_f = float(exact)
                error = abs(got - exact_f)
                scale = max(1.0, abs(exact_f))
                self.stats['max_rel_error_e18'] = max(self.stats['max_rel_error_e18'],
                                                      int(error / scale * 1e18))
                if error > 1e-9 * scale:
                    self.violation(
                        'wrong-completion-time',
                        '%s: transfer completed at %r, fluid model says %r (%s); removed: %s'
                        % (name, got, exact_f, exact, removals))


def earlier_simulation(pipe):
    """a complete, separate run() in which the same pipe object was congested and drained"""
    async def main():
        async with usim.Scope() as scope:
            scope.do(pipe.transfer(3))
            scope.do(pipe.transfer(1, 0.5))
            scope.do(pipe.transfer(2))
            # a transfer that is forcefully closed mid-flight when that simulation ends
            scope.do(pipe.transfer(10 ** 6, 0.25), volatile=True)
            await (usim.time + 20)
    usim.run(main())


def build_for(case):
    scenario = case['scenario']

    def build(arena):
        # (a clock that starts below zero and crosses it; whole and half units stay exact)
        arena.start = [-10, -1.5, -4][case['index'] % 3] if case['index'] % 7 == 3 else 0
        if scenario['throughput'] == 'inf':
            pipe = inject.made(case, UnboundedPipe)
        elif scenario['throughput'] == 'pipe-inf':
            pipe = inject.made(case, lambda: Pipe(throughput=float('inf')))    # a regular pipe that never congests
        else:
            pipe = inject.made(case, lambda: Pipe(throughput=scenario['throughput']))
        if case['index'] % 5 < 2:
            earlier_simulation(pipe)
        checker = PipeChecker(arena, pipe, scenario)

        def user(spec):
            name = spec['name']

            async def run():
                for offset, volume, limit in spec['rounds']:
                    prepared = None
                    if case['index'] % 3 == 1 and spec.get('until') is None:
                        # the request is made now, the transfer begins when it is awaited;
                        # and a request that is dropped unstarted never takes part at all
                        prepared = pipe.transfer(volume, float('inf') if limit == 'inf' else limit)
                        pipe.transfer(volume + 1).close()
                        checker.stats['transfers_prepared_early'] = checker.stats.get(
                            'transfers_prepared_early', 0) + 1
                    try:
                        if offset:
                            await (time + offset)
                    except BaseException:
                        if prepared is not None:
                            prepared.close()
                        raise
                    arena.log(name, 'transfer-start', volume, limit)
                    checker.inflight += 1
                    checker.max_inflight = max(checker.max_inflight, checker.inflight)
                    try:
                        if spec.get('until') is not None:
                            checker.deadlines[name] = time.now + spec['until']
                            async with usim.until(time + spec['until']):
                                await pipe.transfer(float('inf'), limit)
                            return
                        if prepared is not None:
                            await prepared
                        else:
                            await pipe.transfer(volume, float('inf') if limit == 'inf' else limit)
                    except BaseException:
                        checker.stats['transfers_struck'] += 1
                        raise
                    finally:
                        checker.inflight -= 1
                    checker.ends[name].append(time.now)
                    arena.log(name, 'transfer-end', volume, limit)
            return run
        background = []
        if scenario.get('other_pipe'):
            # a second, independent pipe is busy at the same time: pipes do not share anything
            other = Pipe(throughput=scenario['other_pipe']['throughput'])

            async def elsewhere():
                async with usim.Scope() as scope:
                    for offset, volume, limit in scenario['other_pipe']['transfers']:
                        scope.do(other.transfer(volume, limit), after=offset or None)
            background.append(elsewhere())
            checker.stats['runs_next_to_another_pipe'] = 1
        return [(spec['name'], user(spec)) for spec in scenario['users']], background, checker
    return build


def check(sess, arena, checker, outcome, plan):
    found = inject.kernel_violations(sess, outcome)
    if outcome[0] == 'ok':
        checker.judge()
    found += [dict(v) for v in sess.violations if v['mechanism'].startswith('c13:')]
    return found


def many_tiny_shares(case):
    """a transfer under way is joined, one after the other or all at once, by thousands of
    transfers whose limits are minute: every one of them takes its share, however small - the
    sum of them is what the first transfer loses (closed form, exact in Fractions)"""
    from fractions import Fraction
    from usim import Scope
    from ..probe import Session
    rng = random.Random('%s/%s/c13-tiny' % (case['seed'], case['index']))
    crowd = rng.choice([40, 80, 120])
    weight = rng.choice([5e-10, 2.5e-10, 1e-9])
    joined_at = rng.choice([0.015625, 0.25])
    stagger = rng.random() < 0.5            # all at one time, in as many turns / one per time step
    ends = []

    async def main_transfer(pipe):
        await pipe.transfer(1)
        ends.append(time.now)

    async def tiny(pipe, number):
        if stagger:
            await (time + number * 2.0 ** -40)
        await pipe.transfer(10 ** 9, weight)

    async def main():
        pipe = Pipe(throughput=1)
        async with Scope() as scope:
            scope.do(main_transfer(pipe))
            await (time + joined_at)
            for number in range(crowd):
                scope.do(tiny(pipe, number), volatile=True)
            await (time + 3)

    sess = Session(budget_per_step=10 ** 6, budget_total=10 ** 7)
    outcome = sess.run(main())
    violations = [dict(v) for v in sess.violations if v['mechanism'].startswith('kernel-')]
    # exact: until the crowd has joined the transfer has the pipe to itself; afterwards its
    # share is 1 / (1 + crowd * weight). (Staggered arrivals take 2**-40 each: their effect on
    # the end is below 1e-9 and inside the tolerance.)
    total = Fraction(1) + crowd * Fraction(weight)
    expected = Fraction(joined_at) + (1 - Fraction(joined_at)) * total
    what = 'a transfer on Pipe(1) joined at %r by %d transfers limited to %r each%s' % (
        joined_at, crowd, weight, ', one after the other' if stagger else '')
    if outcome[0] != 'ok':
        violations.append({'mechanism': 'c13:run-failed', 'msg': '%s: %r' % (what, outcome[1])})
    elif len(ends) != 1 or abs(Fraction(ends[0]) - expected) > Fraction(3, 10 ** 9) * expected:
        violations.append({'mechanism': 'c13:wrong-completion-time',
                           'msg': '%s: completed at %s, the shares say %r' % (
                               what, ends, float(expected))})
    for vio in violations:
        vio['case'] = dict(case)
    return {'evals': 1, 'sigs': [], 'violations': violations, 'sample': None,
            'stats': {'crowds_of_tiny_shares': 1, 'completions_checked': 1,
                      'activations': sess.n}}


def run_case(case):
    if case['index'] % 40 == 19 and case.get('plan') is None:
        return many_tiny_shares(case)
    rng = random.Random('%s/%s/c13-inj' % (case['seed'], case['index']))
    return inject.explore(case, build_for(case), rng, check, case['tier'],
                          quick_samples=12, max_plans=400)
