"""C04 - no task outlives its scope (structured concurrency containment)"""
import random

from .. import bootstrap  # noqa: F401
from ..gen import Gen
from . import common

PROPERTY = 'C04'
LEVEL = 'fault_enumeration'
RULE = (
    'random trees of nested Scope/until blocks (depth <= 4, volatile and non-volatile children, '
    'children started now/after/at, children that spawn siblings into their parent block - also '
    'during shutdown, from their own clean-up while they are being closed, and after the block '
    'has ended) with exit causes {normal, body exception, '
    'child failure, until-notification of every kind, owner cancelled, owner closed by an outer '
    'abort}; cancellations are injected at activation boundaries (quick: sampled; thorough: '
    'every boundary x 3 victims + double faults). Monitors: all children done when control '
    'leaves the block; no logged event and no payload activation of a task or its descendants '
    'afterwards; on a normal exit of a Scope every non-volatile child SUCCESS (or explicitly '
    'cancelled); do() after the block was left is refused and the payload closed. '
    'non-trivial = >= 1 block with >= 1 child was left; distinct = activation trace'
)
LEVEL_TEXT = (
    'Fault enumeration by runtime monitoring: the containment monitor observes every block exit '
    'of generated scope trees on the real code and checks the recorded event log and activation '
    'trace for any sign of life of a task after its block was left, with the exit cause injected '
    'at activation boundaries. Held = nothing observed on the executions explored.')
TECHNIQUE = 'runtime monitoring: containment monitor at block exits + offline check of event log and activation trace, cancel injection at activation boundaries'
ASSUMPTIONS = [
    'programs from the scenario language; a task counts as "its code ran" when its payload logs '
    'an event or is activated after it began',
    'CPython 3.12.1; probe on Loop.run/schedule/_run_coroutine',
]
REQUIRED_STATS = ['scope_exits', 'containment_events_checked', 'injected', 'normal_exits',
                  'cleanup_spawns']

WEIGHTS = {
    'scope': 16, 'until': 14, 'spawn': 8, 'raise': 2.5, 'cancel': 5, 'await_task': 3,
    'wait': 12, 'setflag': 3, 'settracked': 2, 'lock': 1, 'put': 1, 'get': 1, 'iter': 0.5,
    'close': 0.5, 'borrow': 1, 'resource': 0.5, 'transfer': 1, 'ticker': 1, 'collect': 2,
    'first': 1, 'guard': 6, 'watch': 6,
}


def n_cases(tier):
    return 1500 if tier == 'quick' else 4000


def make_case(seed, index, tier):
    return {'seed': seed, 'index': index, 'tier': tier}


def build(case):
    rng = random.Random('%s/%s/c04' % (case['seed'], case['index']))
    gen = Gen(rng, weights=WEIGHTS, max_depth=4, max_steps=4, max_roots=3,
              start_times=(0, 0, 0.5, -5))
    program = gen.program()
    # spawning into blocks that have (or may have) ended: add late spawns into named scopes
    scope_ids = []

    def walk(steps):
        for step in steps:
            if step['op'] == 'scope':
                scope_ids.append(step['id'])
            for key in ('body',):
                if key in step:
                    walk(step[key])
            for child in step.get('children', ()):
                walk(child['steps'])
            for act in step.get('acts', ()):
                walk(act['steps'])
            for body in step.get('bodies', ()):
                walk(body)
            if 'child' in step:
                walk(step['child']['steps'])
    for root in program['roots']:
        walk(root['steps'])
    if scope_ids and rng.random() < 0.6:
        late = {'name': 'late', 'steps': []}
        for _ in range(rng.randint(1, 4)):
            late['steps'].append({'op': 'wait', 'n': {'k': 'delay', 'd': rng.choice([0.25, 0.5, 1, 2])},
                                  'id': gen.next_id('s')})
            late['steps'].append({
                'op': 'spawn', 'scope': rng.choice(scope_ids), 'id': gen.next_id('s'),
                'child': {'name': gen.next_id('t'), 'volatile': rng.random() < 0.3,
                          'steps': [{'op': 'wait', 'n': {'k': 'delay', 'd': rng.choice([0.5, 1])},
                                     'id': gen.next_id('s')}]}})
        program['roots'].append(late)
    return program, rng


def relevant(mechanism):
    return mechanism.startswith(('c04:', 'harness'))


def nontrivial(env, sess):
    return any(info['left'] is not None and info['children'] for info in env.scope_inst.values())


def run_case(case):
    program, rng = build(case)
    return common.explore(case, program, rng, relevant, nontrivial)
