"""C04 - no task outlives its scope (structured concurrency containment)"""
import random

from .. import bootstrap  # noqa: F401
from ..gen import Gen
from . import common

PROPERTY = 'C04'
LEVEL = 'fault_enumeration'
RULE = (
    'random trees of nested Scope/until blocks (depth <= 4, volatile and non-volatile children, '
    'children started now/after/at, children that spawn siblings into their parent block - also '
    'during shutdown, from their own clean-up while they are being closed, and after the block '
    'has ended) with exit causes {normal, body exception, '
    'child failure, until-notification of every kind, owner cancelled, owner closed by an outer '
    'abort}; cancellations are injected at activation boundaries (quick: sampled; thorough: '
    'every boundary x 3 victims + double faults). Monitors: all children done when control '
    'leaves the block; no logged event and no payload activation of a task or its descendants '
    'afterwards; on a normal exit of a Scope every non-volatile child SUCCESS (or explicitly '
    'cancelled); do() after the block was left is refused and the payload closed. '
    'non-trivial = >= 1 block with >= 1 child was left; distinct = activation trace'
)
LEVEL_TEXT = (
    'Fault enumeration by runtime monitoring: the containment monitor observes every block exit '
    'of generated scope trees on the real code and checks the recorded event log and activation '
    'trace for any sign of life of a task after its block was left, with the exit cause injected '
    'at activation boundaries. Held = nothing observed on the executions explored.')
TECHNIQUE = 'runtime monitoring: containment monitor at block exits + offline check of event log and activation trace, cancel injection at activation boundaries'
ASSUMPTIONS = [
    'programs from the scenario language; a task counts as "its code ran" when its payload logs '
    'an event or is activated after it began',
    'CPython 3.12.1; probe on Loop.run/schedule/_run_coroutine',
]
REQUIRED_STATS = ['scope_exits', 'containment_events_checked', 'injected', 'normal_exits',
                  'cleanup_spawns']

WEIGHTS = {
    'scope': 16, 'until': 14, 'spawn': 8, 'raise': 2.5, 'cancel': 5, 'await_task': 3,
    'wait': 12, 'setflag': 3, 'settracked': 2, 'lock': 1, 'put': 1, 'get': 1, 'iter': 0.5,
    'close': 0.5, 'borrow': 1, 'resource': 0.5, 'transfer': 1, 'ticker': 1, 'collect': 2,
    'first': 1, 'guard': 6, 'watch': 6,
}


def n_cases(tier):
    return 1500 if tier == 'quick' else 4000


def make_case(seed, index, tier):
    return {'seed': seed, 'index': index, 'tier': tier}


def build(case):
    rng = random.Random('%s/%s/c04' % (case['seed'], case['index']))
    gen = Gen(rng, weights=WEIGHTS, max_depth=4, max_steps=4, max_roots=3,
              start_times=(0, 0, 0.5, -5))
    program = gen.program()
    # spawning into blocks that have (or may have) ended: add late spawns into named scopes
    scope_ids = []

    def walk(steps):
        for step in steps:
            if step['op'] == 'scope':
                scope_ids.append(step['id'])
            for key in ('body',):
                if key in step:
                    walk(step[key])
            for child in step.get('children', ()):
                walk(child['steps'])
            for act in step.get('acts', ()):
                walk(act['steps'])
            for body in step.get('bodies', ()):
                walk(body)
            if 'child' in step:
                walk(step['child']['steps'])
    for root in program['roots']:
        walk(root['steps'])
    if scope_ids and rng.random() < 0.6:
        late = {'name': 'late', 'steps': []}
        for _ in range(rng.randint(1, 4)):
            late['steps'].append({'op': 'wait', 'n': {'k': 'delay', 'd': rng.choice([0.25, 0.5, 1, 2])},
                                  'id': gen.next_id('s')})
            late['steps'].append({
                'op': 'spawn', 'scope': rng.choice(scope_ids), 'id': gen.next_id('s'),
                'child': {'name': gen.next_id('t'), 'volatile': rng.random() < 0.3,
                          'steps': [{'op': 'wait', 'n': {'k': 'delay', 'd': rng.choice([0.5, 1])},
                                     'id': gen.next_id('s')}]}})
        program['roots'].append(late)
    return program, rng


def relevant(mechanism):
    return mechanism.startswith(('c04:', 'harness'))


def nontrivial(env, sess):
    return any(info['left'] is not None and info['children'] for info in env.scope_inst.values())


def spawned_during_shutdown(case):
    """the body of a block ends while none (or all) of its children is alive any more; in that very
    time step - before or after the owner announces the shutdown - somebody who holds the scope
    hands it another task: a task that is accepted is waited for and runs to its end ("children
    spawned during shutdown are waited for as well"), one that is refused never runs"""
    import usim
    from usim import time, Scope, instant
    from usim._primitives.context import ScopeClosed
    from ..probe import Session
    rng = random.Random('%s/%s/c04-shutdown' % (case['seed'], case['index']))
    body_ends = rng.choice([1, 2])
    children = rng.choice([0, 0, 1, 2])           # all of them done before the body ends
    spawn_at = rng.choice([body_ends, body_ends, body_ends - 0.5, body_ends + 0.5])
    helper_first = rng.random() < 0.5
    extra_turns = rng.randint(0, 2)
    log = []
    box = {}

    async def work(name, duration):
        log.append((name, 'begun', time.now))
        await (time + duration)
        log.append((name, 'done', time.now))

    async def helper():
        await (time + spawn_at)
        for _ in range(extra_turns):
            await instant
        try:
            box['scope'].do(work('late', 1))
            log.append(('late', 'accepted', time.now))
        except ScopeClosed:
            log.append(('late', 'refused', time.now))

    async def owner():
        async with Scope() as scope:
            box['scope'] = scope
            for number in range(children):
                scope.do(work('early%d' % number, 0.25))
            await (time + body_ends)
        log.append(('block', 'left', time.now))

    async def main():
        async with Scope() as outer:
            for coro in ([helper(), owner()] if helper_first else [owner(), helper()]):
                outer.do(coro)

    sess = Session()
    root = main()
    root.__name__ = root.__qualname__ = 'shutdown'
    outcome = sess.run(root)
    violations = [dict(v) for v in sess.violations if v['mechanism'].startswith('kernel-')]
    what = 'a block with %d finished children whose body ends at %r; at %r (+%d turns, queued %s) ' \
           'somebody hands it a task' % (children, body_ends, spawn_at, extra_turns,
                                          'earlier' if helper_first else 'later')
    accepted = ('late', 'accepted', spawn_at) in log
    left = [entry[2] for entry in log if entry[:2] == ('block', 'left')]
    if outcome[0] != 'ok':
        violations.append({'mechanism': 'c04:run-failed', 'msg': '%s: %r' % (what, outcome[1])})
    elif accepted:
        if ('late', 'done', spawn_at + 1) not in log:
            violations.append({'mechanism': 'c04:normal-exit-child-not-completed',
                               'msg': '%s: it was accepted but did not run to its end (%s)' % (
                                   what, log)})
        elif not left or left[0] != max(body_ends, spawn_at + 1):
            violations.append({'mechanism': 'c04:child-alive-at-exit',
                               'msg': '%s: the block was left at %s (%s)' % (what, left, log)})
    elif any(entry[0] == 'late' and entry[1] in ('begun', 'done') for entry in log) \
            or left != [body_ends]:
        violations.append({'mechanism': 'c04:spawn-into-ended-scope-accepted',
                           'msg': '%s: it was refused, yet %s' % (what, log)})
    for vio in violations:
        vio['case'] = dict(case)
    try:
        root.close()
    except BaseException:  # noqa: B902
        pass
    return {'evals': 1, 'sigs': [sess.signature()], 'violations': violations,
            'stats': {'spawned_during_shutdown': 1, 'accepted_during_shutdown': int(accepted),
                      'activations': sess.n}}


def run_case(case):
    if case.get('plan') is None and case['index'] % 25 == 7:
        return spawned_during_shutdown(case)
    program, rng = build(case)
    return common.explore(case, program, rng, relevant, nontrivial)
