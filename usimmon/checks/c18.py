"""C18 - SimPy layer: events fire once; processes resume with the right value and time"""
import random

from .. import bootstrap  # noqa: F401
from ..models import simpyref
from ..probe import Session

import usim
import usim.py as usimpy
from usim.py.exceptions import Interrupt as UsimInterrupt

PROPERTY = 'C18'
LEVEL = 'exploration'
RULE = (
    'race-free process programs (every state-changing action is preceded by a timeout whose '
    'duration carries a globally unique binary digit, so independent actions never share a '
    'virtual time): 1-6 processes built from timeouts with values, manual events (succeed / '
    'fail, triggered before and after being waited for, several waiters, callbacks, second '
    'trigger), sub-processes with return values and failures, all_of / any_of / & / | (nested, '
    'empty), interrupts (several per yield, on finished processes), run(until = None | time | '
    'event). The same generator scripts run on usim.py and on an independent reference kernel '
    '(usimmon/models/simpyref.py); per process the log (step, env.now, received value or '
    'exception), the callback log, the result of run() and env.now afterwards must be equal. '
    'Second family (usim only): the same program embedded in a native simulation (async with '
    'Environment) must give the same logs, native activities awaiting an event must see what a '
    'process waiting for it sees, and processes yielding native delays / coroutines resume at '
    'the arithmetic time with the coroutine\'s value. non-trivial = >= 2 processes interacted; '
    'distinct = per-process log digest'
)
RULE = RULE + (' Further: failures that are no Exception or are Concurrent objects, member lists re-used by the program, native tasks that are cancelled while a process waits for them, native waits for an event that are given up before it fails (unhandled failure ends the run), native simulation younger than the environment.')

LEVEL_TEXT = (
    'Exploration by differential runtime monitoring: identical generated SimPy programs are '
    'executed on the real compatibility layer and on a 250-line reference kernel; every resume '
    'of every process (time and value), every callback and the outcome of run() are compared.')
TECHNIQUE = 'runtime monitoring: differential execution against an independent SimPy reference kernel, per-process resume logs compared'
ASSUMPTIONS = [
    'programs are race-free by construction (unique binary digits in timeout durations)',
    'interrupting a finished process is ignored (statement), not an error as in SimPy',
]
REQUIRED_STATS = ['programs', 'resumes_compared', 'interrupts_delivered', 'conditions_waited',
                  'embedded_runs', 'native_waiters']


def value_of(spec):
    """values of the program; {'exc': tag} is an exception *instance* used as a plain value
    (an event that succeeds with it hands it over, it is not raised)"""
    if isinstance(spec, dict) and 'exc' in spec:
        return SimErr(spec['exc'])
    return spec


class GiveUp(Exception):
    """a process ran out of unique time digits"""


class SimErr(Exception):
    def __new__(cls, tag):
        # a quarter of the failures of a program are of a type that derives from BaseException
        # only (`Event.fail` accepts any BaseException; so must a failing process)
        if cls is SimErr and sum(map(ord, str(tag))) % 4 == 0:
            return SimAbort(tag)
        if cls is SimErr and sum(map(ord, str(tag))) % 8 == 1:
            # ... and some are failures collected elsewhere (a native scope's `Concurrent`)
            # that are passed on as they are: one exception object like any other
            collected = usim.Concurrent(PlainSimErr(tag))
            collected.tag = tag
            return collected
        return super().__new__(cls, tag)

    def __init__(self, tag):
        super().__init__(tag)
        self.tag = tag


class SimAbort(BaseException):
    def __init__(self, tag):
        super().__init__(tag)
        self.tag = tag


class PlainSimErr(SimErr):
    pass


SIM_ERRORS = (SimErr, SimAbort, usim.Concurrent)


def n_cases(tier):
    return 2500 if tier == 'quick' else 200000


def make_case(seed, index, tier):
    return {'seed': seed, 'index': index, 'tier': tier}


# ---- program generation -------------------------------------------------------------------
class Gen:
    def __init__(self, rng):
        self.rng = rng
        self.k = 0
        self.events = ['E%d' % i for i in range(rng.randint(1, 4))]
        #: events that processes trigger themselves; chained events (`src.callbacks.append(
        #: dst.trigger)`) are triggered by their source only, but waited for like any other
        self.plain_events = list(self.events)
        self.chains = []
        if rng.random() < 0.3:
            for index in range(rng.randint(1, 2)):
                self.chains.append([rng.choice(self.events), 'C%d' % index])
                self.events.append('C%d' % index)
        self.procs = {}
        self.order = []

    MAX_DIGITS = 22

    def duration(self):
        self.k += 1
        return [self.rng.choice([0, 0, 1, 1, 2]), self.k]

    def value(self, tag):
        # now and then the value is an exception object (a value like any other)
        return {'exc': tag} if self.rng.random() < 0.1 else tag

    def exhausted(self):
        return self.k >= self.MAX_DIGITS - 4

    def member(self, depth=0):
        rng = self.rng
        roll = rng.random()
        if roll < 0.45:
            # (chained events fire in the time step of their source: as members of one
            # condition the two would race, so conditions take self-triggered events only)
            return {'m': 'event', 'ev': rng.choice(self.plain_events)}
        if roll < 0.8 or depth >= 1:
            return {'m': 'timeout', 'd': self.duration(), 'value': self.value('tv%d' % self.k)}
        if roll < 0.9 and self.order:
            return {'m': 'proc', 'p': rng.choice(self.order)}
        return {'m': 'cond', 'how': rng.choice(['all', 'any']),
                'members': [self.member(depth + 1) for _ in range(rng.randint(0, 3))]}

    def script(self, name, depth=0):
        rng = self.rng
        steps = []
        for _ in range(rng.randint(1, 6)):
            if self.exhausted():
                break
            roll = rng.random()
            if roll < 0.25:
                steps.append({'op': 'timeout', 'd': self.duration(), 'value': self.value('v%d' % self.k)})
            elif roll < 0.4:
                steps.append({'op': 'wait', 'ev': rng.choice(self.events)})
            elif roll < 0.52:
                steps.append({'op': 'cond', 'how': rng.choice(['all', 'any', 'and', 'or']),
                              'members': [self.member() for _ in range(rng.choice([0, 1, 2, 2, 3]))]})
            elif roll < 0.66:
                steps.append({'op': 'succeed', 'ev': rng.choice(self.plain_events), 'd': self.duration(),
                              'value': self.value('sv%d' % self.k)})
            elif roll < 0.72:
                steps.append({'op': 'fail', 'ev': rng.choice(self.plain_events), 'd': self.duration(),
                              'tag': 'x%d' % self.k})
            elif roll < 0.84 and self.order:
                steps.append({'op': 'interrupt', 'p': rng.choice(self.order),
                              'd': self.duration(), 'cause': 'c%d' % self.k,
                              'times': rng.choice([1, 1, 2, 3])})
            elif roll < 0.92 and depth < 2 and len(self.procs) < 4:
                child = 'P%d' % (len(self.procs) + 1)
                self.procs[child] = None
                self.order.append(child)
                self.procs[child] = self.script(child, depth + 1)
                steps.append({'op': 'spawn', 'p': child, 'd': self.duration(),
                              'join': rng.random() < 0.5})
            elif self.order:
                steps.append({'op': 'waitproc', 'p': rng.choice(self.order)})
            else:
                steps.append({'op': 'timeout', 'd': self.duration(), 'value': None})
        end = rng.random()
        if end < 0.12:
            steps.append({'op': 'raise', 'tag': 'r-%s' % name})
        else:
            steps.append({'op': 'return', 'value': self.value('ret-%s' % name)})
        return steps

    def sanitise(self):
        """Intermediate conditions (a & b & c builds (a & b) & c, nested all_of/any_of) that
        fail without anybody waiting for *them* end a SimPy run as unhandled failures - a corner
        of SimPy the statement does not describe.  Such conditions only get members that cannot
        fail."""
        failing = {step['ev'] for steps in self.procs.values() for step in steps
                   if step['op'] == 'fail'}
        raising = {name for name, steps in self.procs.items() if steps[-1]['op'] == 'raise'}

        def safe(member):
            if member['m'] == 'event':
                return member['ev'] not in failing
            if member['m'] == 'proc':
                return member['p'] not in raising
            if member['m'] == 'cond':
                return all(safe(sub) for sub in member['members'])
            return True

        def clean(members, nested):
            result = []
            for member in members:
                if member['m'] == 'cond':
                    member['members'] = clean(member['members'], True)
                    member['members'] = [m for m in member['members'] if safe(m)]
                if nested and not safe(member):
                    continue
                result.append(member)
            return result
        for steps in self.procs.values():
            for step in steps:
                if step['op'] == 'cond':
                    # any_of over members of which one has *already failed* when the condition
                    # is created: SimPy stops at the first fired member, usim.py looks at all -
                    # "fired" is not defined for that case by the statement; keep failures out
                    # of any/or conditions (all_of / & still see members that fail)
                    chained = (step['how'] in ('and', 'or') and len(step['members']) > 2) \
                        or step['how'] in ('any', 'or')
                    step['members'] = clean(step['members'], chained)
                    for member in step['members']:
                        if member['m'] == 'cond' and not safe(member):
                            member['members'] = [m for m in member['members'] if safe(m)]

    def program(self):
        rng = self.rng
        roots = []
        for _ in range(rng.randint(1, 3)):
            if len(self.procs) >= 4:
                break
            name = 'P%d' % (len(self.procs) + 1)
            self.procs[name] = None
            self.order.append(name)
            self.procs[name] = self.script(name)
            roots.append(name)
        until = rng.choice([None, None, None, 'time', 'time', 'event'])
        self.sanitise()
        spec = {'events': self.events, 'procs': self.procs, 'roots': roots, 'chains': self.chains,
                'callbacks': [ev for ev in self.events if rng.random() < 0.5],
                'defusers': [ev for ev in self.plain_events if rng.random() < 0.2],
                'initial_time': rng.choice([0, 0, 0, 4]), 'until': None}
        if until == 'time':
            spec['until'] = {'time': rng.choice([1, 2, 3, 5, 8, 40]) + 0.5 + 2.0 ** -22}
            if rng.random() < 0.12:
                spec['until'] = {'time': 0}     # run(until=now): nothing later than now runs
        elif until == 'event':
            # (not an event that is part of a chain: the other events of the chain are triggered
            # in the very time step in which the run stops - whether a failure among them still
            # counts as unhandled is a race inside that step)
            chained = {name for pair in self.chains for name in pair}
            free = [name for name in self.events if name not in chained]
            if free:
                spec['until'] = {'event': rng.choice(free)}
        return spec


# ---- interpreter (runs on both kernels) -----------------------------------------------------
class World:
    def __init__(self, spec, env, interrupt_class):
        self.spec = spec
        self.env = env
        self.Interrupt = interrupt_class
        self.events = {}
        self.procs = {}
        self.logs = {}
        self.callback_log = []
        self.trigger_errors = []
        self.dynamic = {}
        self.stats = {'interrupts_delivered': 0, 'conditions_waited': 0}

    def setup(self):
        env = self.env
        for name in self.spec['events']:
            self.events[name] = env.event()
        for name in self.spec['callbacks']:
            self.events[name].callbacks.append(
                lambda event, name=name: self.callback_log.append((name, env.now)))
            self.events[name].callbacks.append(
                lambda event, name=name: self.callback_log.append((name + '#2', env.now)))
        for name in self.spec.get('defusers', ()):
            # the documented idiom: a callback of the event itself marks its failure as handled
            self.events[name].callbacks.append(
                lambda event: setattr(event, 'defused', True) if not event.ok else None)
        for source, target in self.spec.get('chains', ()):
            self.events[source].callbacks.append(self.events[target].trigger)
        for name in self.spec['roots']:
            self.start(name)

    def start(self, name):
        if name in self.procs:
            return self.procs[name]
        self.logs[name] = []
        self.procs[name] = self.env.process(self.run(name, self.spec['procs'][name]))
        return self.procs[name]

    @staticmethod
    def dur(d):
        return d[0] + 2.0 ** -d[1]

    def rephase(self, name):
        """a timeout with a digit nobody else uses (per process and per use)"""
        index = sorted(self.spec['procs']).index(name)
        count = self.dynamic.get(name, 0)
        self.dynamic[name] = count + 1
        if index >= 4 or count >= 6:
            return None     # no unused digit left: the process gives up (same on both kernels)
        return 2.0 ** -(23 + index * 6 + count)

    def outcome(self, value):
        if hasattr(value, 'todict') or type(value).__name__ == 'ConditionValue':
            names = {id(ev): name for name, ev in self.events.items()}
            names.update({id(proc): name for name, proc in self.procs.items()})
            members = []
            keys = list(value.keys())
            for event in keys:
                members.append((names.get(id(event), 'timeout'), repr(event.value)))
                if repr(value[event]) != repr(event.value) or event not in value:
                    members.append(('member not served by [] / in', names.get(id(event))))
            # the other views of the same mapping: values(), items(), todict(), iteration, ==
            table = value.todict()
            if list(map(repr, value.values())) != [repr(event.value) for event in keys] \
                    or [(id(k), repr(v)) for k, v in value.items()] != [
                        (id(event), repr(event.value)) for event in keys] \
                    or [id(event) for event in value] != [id(event) for event in keys] \
                    or [(id(k), repr(v)) for k, v in table.items()] != [
                        (id(event), repr(event.value)) for event in keys]:
                members.append(('views of the condition value disagree', len(keys)))
            if hasattr(type(value), '__eq__') and type(value).__eq__ is not object.__eq__:
                if not (value == table) or (keys and value == {}) or not (value == value):
                    members.append(('condition value does not equal its own dictionary', len(keys)))
            # the value exposes exactly the members fired by then: anything else - also an
            # event that has fired but is no member - is not in it and not served by []
            for name, event in sorted(list(self.events.items()) + list(self.procs.items())):
                if any(event is member for member in value.keys()):
                    continue
                try:
                    value[event]
                except KeyError:
                    served = False
                else:
                    served = True
                if served or event in value:
                    members.append(('non-member served', name))
            return ('condition', sorted(members, key=repr))
        return ('value', repr(value))

    def build_member(self, member):
        env = self.env
        kind = member['m']
        if kind == 'event':
            return self.events[member['ev']]
        if kind == 'timeout':
            return env.timeout(self.dur(member['d']), value_of(member['value']))
        if kind == 'proc':
            return self.procs.get(member['p'])      # None: not spawned (yet) - left out
        members = [built for built in (self.build_member(sub) for sub in member['members'])
                   if built is not None]
        built = env.all_of(members) if member['how'] == 'all' else env.any_of(members)
        members.clear()
        members.append(env.event())
        return built

    def run(self, name, steps):
        env = self.env
        log = self.logs[name]
        index = 0

        def settle():
            """a state-changing action happens at a virtual time nobody else uses"""
            while True:
                pause = self.rephase(name)
                if pause is None:
                    raise GiveUp()
                try:
                    yield env.timeout(pause)
                    return
                except self.Interrupt as interrupt:
                    self.stats['interrupts_delivered'] += 1
                    log.append((index, env.now, ('interrupted', repr(interrupt.cause))))

        while index < len(steps):
            step = steps[index]
            op = step['op']
            try:
                if op == 'nop':
                    pass
                elif op == 'timeout':
                    value = yield env.timeout(self.dur(step['d']), value_of(step['value']))
                    log.append((index, env.now, self.outcome(value)))
                elif op == 'wait':
                    value = yield self.events[step['ev']]
                    log.append((index, env.now, self.outcome(value)))
                elif op == 'waitproc':
                    target = self.procs.get(step['p'])
                    if target is None or target is self.procs[name]:
                        log.append((index, env.now, ('skip', 'noproc')))
                    else:
                        value = yield target
                        log.append((index, env.now, self.outcome(value)))
                elif op == 'cond':
                    members = [built for built in (self.build_member(member)
                                                   for member in step['members'])
                               if built is not None]
                    how = step['how']
                    if how in ('and', 'or') and len(members) >= 2:
                        event = members[0]
                        for other in members[1:]:
                            event = (event & other) if how == 'and' else (event | other)
                    elif how in ('all', 'and'):
                        event = env.all_of(members)
                    else:
                        event = env.any_of(members)
                    # the list belongs to the program: it goes on using it for something else
                    members.clear()
                    members.append(env.event())
                    self.stats['conditions_waited'] += 1
                    value = yield event
                    log.append((index, env.now, self.outcome(value)))
                elif op in ('succeed', 'fail', 'interrupt', 'spawn'):
                    yield env.timeout(self.dur(step['d']))
                    if op == 'succeed':
                        try:
                            self.events[step['ev']].succeed(value_of(step['value']))
                            log.append((index, env.now, ('succeeded', step['ev'])))
                        except RuntimeError:
                            log.append((index, env.now, ('already-triggered', step['ev'])))
                    elif op == 'fail':
                        try:
                            self.events[step['ev']].fail(SimErr(step['tag']))
                            log.append((index, env.now, ('failed-event', step['ev'])))
                        except RuntimeError:
                            log.append((index, env.now, ('already-triggered', step['ev'])))
                        # whether a failure is "handled" is decided when the event is processed;
                        # a waiter that arrives later in the very same time step is a race
                        yield from settle()
                    elif op == 'interrupt':
                        target = self.procs.get(step['p'])
                        if target is not None and target is not self.procs[name]:
                            for number in range(step['times']):
                                target.interrupt('%s.%d' % (step['cause'], number))
                            log.append((index, env.now, ('interrupting', step['p'],
                                                         bool(target.is_alive))))
                    else:
                        fresh = step['p'] not in self.procs
                        child = self.start(step['p'])
                        log.append((index, env.now, ('spawned', step['p'], fresh)))
                        if step['join'] and fresh:
                            value = yield child
                            log.append((index, env.now, self.outcome(value)))
                elif op == 'raise':
                    yield from settle()
                    raise SimErr(step['tag'])
                elif op == 'return':
                    # (the end of a process fires an event as well: at a time of its own)
                    yield from settle()
                    return value_of(step['value'])
            except self.Interrupt as interrupt:
                self.stats['interrupts_delivered'] += 1
                log.append((index, env.now, ('interrupted', repr(interrupt.cause))))
                # the next yield may be on an event that has been processed long ago: a further
                # pending interrupt must be raised there as well ("one per yield")
                done = [ev for ev in sorted(self.events) if self.events[ev].processed
                        and self.events[ev].ok]
                if done:
                    try:
                        value = yield self.events[done[0]]
                        log.append((index, env.now, ('processed-event', done[0], repr(value))))
                    except self.Interrupt as again:
                        self.stats['interrupts_delivered'] += 1
                        log.append((index, env.now, ('interrupted', repr(again.cause))))
                try:
                    yield from settle()
                except GiveUp:
                    return 'gave-up'
            except SIM_ERRORS as err:
                if op == 'raise':
                    raise
                log.append((index, env.now, ('exception', err.tag)))
                try:
                    yield from settle()
                except GiveUp:
                    return 'gave-up'
            except GiveUp:
                return 'gave-up'
            index += 1
        try:
            yield from settle()
        except GiveUp:
            return 'gave-up'
        return None


def describe_outcome(kind, exc):
    if kind == 'ok':
        return ('ok', None)
    if isinstance(exc, SIM_ERRORS) and getattr(exc, 'tag', None) is not None:
        # (the very exception the event failed with: a collected failure stays collected)
        return ('SimErr', exc.tag, 'collected' if isinstance(exc, usim.Concurrent) else 'plain')
    if isinstance(exc, AssertionError) and 'may only be specialised by Exception subclasses' in str(exc):
        # the native layer's usage assertion about failures that are no Exception (debug mode)
        return ('AssertionError', 'failure-that-is-no-exception')
    return (type(exc).__name__, None)


def run_reference(spec):
    env = simpyref.Environment(spec['initial_time'])
    world = World(spec, env, simpyref.Interrupt)
    world.setup()
    until = spec['until']
    try:
        if until is None:
            result = env.run()
        elif 'time' in until:
            result = env.run(until=spec['initial_time'] + until['time'])
        else:
            result = env.run(until=world.events[until['event']])
        outcome = ('ok', None)
    except BaseException as exc:  # noqa: B902
        result = None
        outcome = describe_outcome('exc', exc)
    return world, outcome, repr(result), env.now


def run_usim(spec, embedded=False, natives=()):
    sess = Session(budget_per_step=20000, budget_total=400000)
    holder = {}
    native_log = []
    until = spec['until']

    def runner():
        env = usimpy.Environment(spec['initial_time'])
        world = World(spec, env, UsimInterrupt)
        holder['world'] = world
        holder['env'] = env
        if not embedded:
            world.setup()
            if until is None:
                holder['result'] = env.run()
            elif 'time' in until:
                holder['result'] = env.run(until=spec['initial_time'] + until['time'])
            else:
                holder['result'] = env.run(until=world.events[until['event']])
            return

        async def native_waiter(name):
            try:
                value = await world.events[name]
                native_log.append((name, usim.time.now, ('value', repr(value))))
            except SIM_ERRORS as err:
                native_log.append((name, usim.time.now, ('exception', err.tag)))

        async def main():
            async with usim.Scope() as scope:
                async with env:
                    world.setup()
                    for name in natives:
                        scope.do(native_waiter(name), volatile=True)
        # the native simulation may be younger than the environment's initial time: the
        # environment begins when the native clock gets there
        usim.run(main(), start=spec['initial_time'] - spec.get('native_head_start', 0))
        holder['result'] = None
    kind, exc = sess.run(runner=runner)
    world = holder.get('world')
    env = holder.get('env')
    now = env.now if env is not None else None
    return world, describe_outcome(kind, exc), repr(holder.get('result')), now, sess, native_log


def compare(case, spec):
    violations = []
    stats = {'programs': 1, 'resumes_compared': 0, 'interrupts_delivered': 0,
             'conditions_waited': 0, 'embedded_runs': 0, 'native_waiters': 0,
             'runs_ended_by_exception': 0, 'until_time': 0, 'until_event': 0}

    def vio(mechanism, msg):
        violations.append({'mechanism': 'c18:' + mechanism, 'msg': msg, 'case': dict(case)})

    ref_world, ref_outcome, ref_result, ref_now = run_reference(spec)
    world, outcome, result, now, sess, _ = run_usim(spec)
    for v in sess.violations:
        if v['mechanism'].startswith('kernel-'):
            vio(v['mechanism'], v['msg'])
    stats['interrupts_delivered'] += ref_world.stats['interrupts_delivered']
    stats['conditions_waited'] += ref_world.stats['conditions_waited']
    until = spec['until']
    if until and 'time' in until:
        stats['until_time'] += 1
    if until and 'event' in until:
        stats['until_event'] += 1
    if outcome == ('AssertionError', 'failure-that-is-no-exception'):
        # A failure of a type that is no Exception reached the scope hosting the environment,
        # which refuses to wrap it ("'Concurrent' may only be specialised by Exception
        # subclasses", a usage assertion of the native layer, absent under -O): the run ends
        # with that assertion - whatever the reference kernel makes of the failure (unhandled,
        # or handled only through a chained `until` event) is outside of what the statement
        # fixes for such types in debug mode.
        stats['runs_ended_by_exception'] += 1
        return violations, stats
    if outcome != ref_outcome:
        vio('run-outcome', 'env.run(until=%s) ended with %s, reference kernel: %s' % (
            until, outcome, ref_outcome))
    elif outcome[0] != 'ok':
        stats['runs_ended_by_exception'] += 1
    if world is None:
        return violations, stats, None, []
    interacting = 0
    digest_parts = []
    crashed = outcome[0] != 'ok' and outcome == ref_outcome
    if crashed and now != ref_now:
        vio('crash-time', 'the run failed at %r, on the reference kernel at %r' % (now, ref_now))

    stopped_by_event = bool(until and 'event' in until and outcome[0] == 'ok'
                            and outcome == ref_outcome)

    def cut(entries, position=1):
        # a failing run - and a run stopped by its `until` event - ends in the middle of a time
        # step: what the other processes still did in that step depends on the order inside the
        # step, which is not compared
        if entries is None or not (crashed or stopped_by_event):
            return entries
        return [entry for entry in entries if entry[position] < ref_now]
    for name in sorted(set(ref_world.logs) | set(world.logs)):
        mine = cut(world.logs.get(name))
        theirs = cut(ref_world.logs.get(name))
        if theirs and any(entry[2][0] in ('interrupted', 'exception', 'condition')
                          for entry in theirs):
            interacting += 1
        if mine != theirs:
            position = 0
            while (mine is not None and theirs is not None and position < len(mine)
                   and position < len(theirs) and mine[position] == theirs[position]):
                position += 1
            vio('process-log-differs',
                'process %s: entry %d is %s on usim.py, %s on the reference kernel (until=%s)'
                % (name, position,
                   mine[position] if mine and position < len(mine) else 'missing',
                   theirs[position] if theirs and position < len(theirs) else 'missing', until))
        else:
            stats['resumes_compared'] += len(mine or ())
        digest_parts.append(repr(theirs))
    callbacks_mine = world.callback_log if stopped_by_event else cut(world.callback_log)
    callbacks_ref = ref_world.callback_log if stopped_by_event else cut(ref_world.callback_log)
    if stopped_by_event:
        # callbacks of *other* events that fire in the stop step are order-dependent as well
        name = until['event']
        callbacks_mine = [c for c in callbacks_mine
                          if c[1] < ref_now or c[0] in (name, name + '#2')]
        callbacks_ref = [c for c in callbacks_ref
                         if c[1] < ref_now or c[0] in (name, name + '#2')]
    if sorted(callbacks_mine) != sorted(callbacks_ref):
        vio('callbacks', 'callbacks ran %s, reference %s' % (
            sorted(world.callback_log), sorted(ref_world.callback_log)))
    if outcome == ref_outcome and outcome[0] == 'ok':
        if result != ref_result:
            vio('run-return-value', 'env.run(until=%s) returned %s, reference %s' % (
                until, result, ref_result))
        if now != ref_now and until is not None:
            vio('env-now-after-run', 'env.now is %r after env.run(until=%s), expected %r' % (
                now, until, ref_now))
    return violations, stats, world, digest_parts, interacting, ref_world


def embedded_family(case, spec, ref_world, stats):
    """the same program inside a native simulation; native activities awaiting events"""
    violations = []
    if spec['until'] is not None:
        return violations
    failing = {step['ev'] for steps in spec['procs'].values() for step in steps
               if step['op'] == 'fail'}
    # a native waiter *handles* a failure (defuses the event), which would change the program
    for _ in spec.get('chains', ()):        # chains of chains: transitive
        failing |= {target for source, target in spec.get('chains', ()) if source in failing}
    natives = [name for name in spec['events'] if name not in failing]
    if spec['initial_time']:
        spec = dict(spec, native_head_start=[0, 1.5, spec['initial_time'], spec['initial_time'] + 3][
            case['index'] % 4])
        stats['embedded_before_initial_time'] = stats.get('embedded_before_initial_time', 0) + int(
            spec['native_head_start'] > 0)
    world, outcome, result, now, sess, native_log = run_usim(spec, embedded=True, natives=natives)
    stats['embedded_runs'] += 1
    ref = run_reference(spec)
    if ref[1][0] != 'ok':
        # an unhandled failure ends the simulation: compare only that it does so
        if outcome[0] == 'ok':
            violations.append({'mechanism': 'c18:embedded-failure-lost',
                               'msg': 'embedded environment swallowed %s' % (ref[1],),
                               'case': dict(case)})
        return violations
    if outcome == ('AssertionError', 'failure-that-is-no-exception'):
        return violations       # (see compare(): usage assertion of the native layer)
    if outcome[0] != 'ok':
        violations.append({'mechanism': 'c18:embedded-run-failed',
                           'msg': 'embedded run ended with %s, standalone reference ok' % (outcome,),
                           'case': dict(case)})
        return violations
    for name in sorted(ref_world.logs):
        if world.logs.get(name) != ref_world.logs.get(name):
            violations.append({
                'mechanism': 'c18:embedded-log-differs',
                'msg': 'process %s behaves differently embedded in a native simulation: %s vs %s'
                       % (name, world.logs.get(name), ref_world.logs.get(name)),
                'case': dict(case)})
            break
    # what a native activity awaiting an event sees = what the trigger did
    triggered = {}
    for name, log in ref_world.logs.items():
        for index, when, entry in log:
            if entry[0] == 'succeeded':
                step = spec['procs'][name][index]
                triggered[entry[1]] = (when, ('value', repr(value_of(step['value']))))
            elif entry[0] == 'failed-event':
                step = spec['procs'][name][index]
                triggered[entry[1]] = (when, ('exception', step['tag']))
    for _ in spec.get('chains', ()):
        for source, target in spec.get('chains', ()):
            if source in triggered:
                triggered[target] = triggered[source]    # chained: same outcome, same time step
    seen = {name: (when, what) for name, when, what in native_log}
    for name, expected in triggered.items():
        if name not in natives:
            continue
        stats['native_waiters'] += 1
        if seen.get(name) != expected:
            violations.append({
                'mechanism': 'c18:native-waiter',
                'msg': 'native activity awaiting %s saw %s, the event was triggered with %s'
                       % (name, seen.get(name), expected), 'case': dict(case)})
    for name in seen:
        if name not in triggered:
            violations.append({'mechanism': 'c18:native-waiter',
                               'msg': 'native activity awaiting %s resumed (%s) but nobody '
                                      'triggered it' % (name, seen[name]), 'case': dict(case)})
    return violations


def native_yield_family(case, rng, stats):
    """processes yielding native notifications / coroutines"""
    violations = []
    log = []
    delay = rng.choice([0.5, 1, 2.5])
    cost = rng.choice([0.5, 1.5])
    initial = rng.choice([0, 3])

    async def work(duration, value):
        await (usim.time + duration)
        return value

    def proc(env):
        start = env.now
        yield usim.time + delay
        log.append(('delay', env.now - start))
        start = env.now
        value = yield work(cost, 'result')
        log.append(('coroutine', env.now - start, value))
        start = env.now
        flag = usim.Flag()
        env.process(setter(env, flag))
        yield flag
        log.append(('flag', env.now - start))
        value = yield env.timeout(1, 'tv')
        log.append(('timeout', value))
        try:
            yield failing(0.5)
        except SIM_ERRORS as err:
            log.append(('coroutine-failed', err.tag))

    async def failing(duration):
        await (usim.time + duration)
        raise SimErr('native')

    def setter(env, flag):
        yield env.timeout(2)
        yield flag.set()

    def runner():
        env = usimpy.Environment(initial)
        env.process(proc(env))
        env.run()
    sess = Session()
    kind, exc = sess.run(runner=runner)
    want = [('delay', delay), ('coroutine', cost, 'result'), ('flag', 2), ('timeout', 'tv'),
            ('coroutine-failed', 'native')]
    stats['native_yield_runs'] = stats.get('native_yield_runs', 0) + 1
    if kind != 'ok' or log != want:
        violations.append({'mechanism': 'c18:native-yield',
                           'msg': 'process yielding native awaitables logged %s (%s %r), '
                                  'expected %s' % (log, kind, exc, want), 'case': dict(case)})
    return violations


def native_outcomes(case):
    """processes that wait for native activities get what a native awaiter gets: the value, the
    failure - or the TaskCancelled of a task that is cancelled meanwhile"""
    from usim import Scope, time, TaskCancelled
    rng = random.Random('%s/%s/c18-native' % (case['seed'], case['index']))
    # (failures of awaited activities are the business of the program families above)
    fate = rng.choice(['value', 'cancelled', 'cancelled', 'cancelled-before-start'])
    delay = rng.choice([1, 2, 3.5])
    via = rng.choice(['task', 'coroutine awaiting the task'])
    log = []
    sess = Session(budget_per_step=20000, budget_total=400000)

    async def activity():
        await (time + 5)
        if fate == 'failure':
            raise PlainSimErr('native-failure')
        return 'native-value'

    async def relay(task):
        return await task

    def describe(kind, detail, when):
        log.append((kind, detail, when))

    async def native_awaiter(task, name):
        try:
            describe(name, ('value', await task), time.now)
        except TaskCancelled as err:
            describe(name, ('cancelled', err.subject is task, err.args), time.now)
        except SIM_ERRORS as err:
            describe(name, ('failure', err.tag), time.now)

    async def main():
        try:
            await simulation()
        except usim.Concurrent as err:
            # (the failing activity is a child of the scope as well: reported there, too)
            if fate != 'failure' or not all(isinstance(child, PlainSimErr)
                                            for child in err.flattened().children):
                raise

    async def simulation():
        env = usimpy.Environment()
        async with Scope() as scope:
            async with env:
                task = scope.do(activity(), after=1 if fate == 'cancelled-before-start' else None)

                def process(env):
                    try:
                        value = yield (task if via == 'task' else relay(task))
                        describe('process', ('value', value), env.now)
                    except TaskCancelled as err:
                        describe('process', ('cancelled', err.subject is task, err.args), env.now)
                    except SIM_ERRORS as err:
                        describe('process', ('failure', err.tag), env.now)
                env.process(process(env))
                scope.do(native_awaiter(task, 'activity'))
                if fate.startswith('cancelled'):
                    await (time + (0.5 if fate == 'cancelled-before-start' else delay))
                    task.cancel('no longer needed')
                await (time + 10)
    outcome = sess.run(main())
    violations = [dict(v) for v in sess.violations if v['mechanism'].startswith('kernel-')]
    by_name = {entry[0]: entry[1:] for entry in log}
    what = 'a process waiting for a native %s that ends by %s' % (via, fate)
    if outcome[0] != 'ok':
        violations.append({'mechanism': 'c18:run-failed', 'msg': '%s: %r' % (what, outcome[1])})
    elif set(by_name) != {'process', 'activity'} or by_name['process'] != by_name['activity']:
        violations.append({'mechanism': 'c18:native-waiter',
                           'msg': '%s: the process saw %s, a native awaiter of the same task %s'
                                  % (what, by_name.get('process'), by_name.get('activity'))})
    else:
        when = {'value': 5, 'failure': 5, 'cancelled': delay, 'cancelled-before-start': 0.5}[fate]
        kind = 'cancelled' if fate.startswith('cancelled') else fate
        if by_name['process'][0][0] != kind or by_name['process'][1] != when:
            violations.append({'mechanism': 'c18:native-waiter',
                               'msg': '%s: both saw %s, expected %s at %r' % (
                                   what, by_name['process'], kind, when)})
    for vio in violations:
        vio['case'] = dict(case)
    return violations, {'native_outcomes_followed': 1}


def abandoned_waits(case):
    """A native activity that waits for an event and gives the wait up - or stays - while the
    event fails: the failure of an event counts as handled only if it is raised in somebody who
    waits for it at that moment; otherwise "an unhandled failed event ends the run with that
    exception", whoever was interested in it earlier on."""
    from usim import Scope, time, until, Concurrent
    rng = random.Random('%s/%s/c18-abandoned' % (case['seed'], case['index']))
    source = rng.choice(['event', 'process', 'all_of', 'any_of'])
    leave = rng.choice(['until', 'cancel', 'interrupt', 'stays', 'stays'])
    fate = rng.choice(['fails', 'fails', 'fails', 'succeeds'])
    other_waiter = rng.random() < 0.3          # a process that waits as well and handles it
    embedded = rng.random() < 0.5 or leave == 'cancel'
    if leave == 'interrupt':
        embedded = False
    quit_at, fire_at = rng.choice([(1, 2), (1, 1.5), (2.5, 3)])
    log = []
    sess = Session(budget_per_step=20000, budget_total=400000)
    holder = {}

    def build(env):
        if source == 'event':
            event = env.event()

            def firing(env):
                yield env.timeout(fire_at)
                if fate == 'fails':
                    event.fail(PlainSimErr('late'))
                else:
                    event.succeed('fine')
            env.process(firing(env))
            return event

        def failing(env):
            yield env.timeout(fire_at)
            if fate == 'fails':
                raise PlainSimErr('late')
            return 'fine'
        process = env.process(failing(env))
        if source == 'process':
            return process
        if source == 'all_of':
            return env.all_of([process, env.timeout(0.25)])
        return env.any_of([process, env.timeout(20)])

    def handler(env, event):
        try:
            yield event
            log.append(('handler', 'value', env.now))
        except SIM_ERRORS as err:
            log.append(('handler', 'caught ' + str(getattr(err, 'tag', err)), env.now))

    async def wait_for(event):
        try:
            value = await event
            log.append(('waiter', 'value', time.now))
            return value
        except SIM_ERRORS as err:
            log.append(('waiter', 'caught ' + str(getattr(err, 'tag', err)), time.now))

    async def bounded_wait(event):
        async with until(time + quit_at):
            await wait_for(event)
        log.append(('waiter', 'gave up', time.now))

    def yielding(env, event):
        try:
            yield bounded_wait(event) if leave == 'until' else wait_for(event)
        except UsimInterrupt:
            log.append(('waiter', 'gave up', env.now))
        yield env.timeout(10)

    def interrupter(env, victim):
        yield env.timeout(quit_at)
        victim.interrupt('enough')

    def standalone():
        env = usimpy.Environment()
        event = build(env)
        if other_waiter:
            env.process(handler(env, event))
        victim = env.process(yielding(env, event))
        if leave == 'interrupt':
            env.process(interrupter(env, victim))
        env.run(until=12)
        holder['now'] = env.now

    async def embedded_main():
        env = usimpy.Environment()
        async with Scope() as scope:
            async with env:
                event = build(env)
                if other_waiter:
                    env.process(handler(env, event))
                if leave == 'until':
                    scope.do(bounded_wait(event))
                else:
                    task = scope.do(wait_for(event))
                    if leave == 'cancel':
                        await (time + quit_at)
                        task.cancel('enough')
                        log.append(('waiter', 'gave up', time.now))
                await (time + 12)
        holder['now'] = time.now

    if embedded:
        outcome = sess.run(embedded_main())
    else:
        outcome = sess.run(runner=standalone)
    violations = [dict(v) for v in sess.violations if v['mechanism'].startswith('kernel-')]
    what = '%s %s; a native activity waiting for it %s at %s (%s%s)' % (
        source, fate + ' at %s' % fire_at, 'stays' if leave == 'stays' else 'gives up by ' + leave,
        quit_at, 'embedded' if embedded else 'standalone',
        ', a process waits for it as well' if other_waiter else '')
    handled = fate == 'succeeds' or other_waiter or leave == 'stays'
    if handled:
        if outcome[0] != 'ok':
            violations.append({'mechanism': 'c18:run-outcome',
                               'msg': '%s: nothing is unhandled, but the run ended with %r' % (
                                   what, outcome[1])})
    else:
        failure = outcome[1] if outcome[0] == 'exc' else None
        leaves = failure.flattened().children if isinstance(failure, Concurrent) else (failure,)
        if not any(isinstance(leaf, PlainSimErr) for leaf in leaves):
            violations.append({
                'mechanism': 'c18:unhandled-failure-lost',
                'msg': '%s: the failure is raised in nobody, yet the run ended with %r instead '
                       'of the failure (log %s)' % (what, outcome[1], log)})
    if leave != 'stays' and ('waiter', 'gave up', quit_at) not in log:
        violations.append({'mechanism': 'c18:native-waiter',
                           'msg': '%s: the waiter did not get away at %s (log %s)' % (
                               what, quit_at, log)})
    if leave == 'stays':
        expected = ('waiter', 'value' if fate == 'succeeds' else 'caught late', fire_at)
        if expected not in log:
            violations.append({'mechanism': 'c18:native-waiter',
                               'msg': '%s: expected %s (log %s)' % (what, expected, log)})
    elif any(entry[0] == 'waiter' and entry[1] != 'gave up' for entry in log):
        violations.append({'mechanism': 'c18:native-waiter',
                           'msg': '%s: a wait that was given up has completed (log %s)' % (
                               what, log)})
    if other_waiter:
        expected = ('handler', 'value' if fate == 'succeeds' else 'caught late', fire_at)
        if expected not in log:
            violations.append({'mechanism': 'c18:native-waiter',
                               'msg': '%s: expected %s (log %s)' % (what, expected, log)})
    for vio in violations:
        vio['case'] = dict(case)
    return violations, {'abandoned_waits_followed': 1,
                        'abandoned_waits_unhandled': int(not handled)}


def inexact_until(case):
    """`env.run(until=t)` stops exactly at t - also when neither the initial time nor t nor the
    delays are exact in binary floating point and the environment does not begin at zero:
    `env.now == t` afterwards, whatever was due before t has happened, nothing that is due later"""
    rng = random.Random('%s/%s/c18-inexact' % (case['seed'], case['index']))
    tenths = [n / 10 for n in range(1, 60)]
    initial = rng.choice([0, 0.1, 0.2, 0.3, 0.7, 1.1, 2.3])
    until = rng.choice([t for t in tenths if t > initial])
    delays = [rng.choice(tenths) for _ in range(rng.randint(2, 6))]
    embedded = rng.random() < 0.4
    resumed = {}
    holder = {}
    sess = Session(budget_per_step=20000, budget_total=400000)

    def sleeper(env, number, delay):
        yield env.timeout(delay)
        resumed[number] = env.now

    def standalone():
        env = usimpy.Environment(initial)
        for number, delay in enumerate(delays):
            env.process(sleeper(env, number, delay))
        env.run(until=until)
        holder['now'] = env.now

    async def native():
        await (usim.time + initial) if initial else None
        env = usimpy.Environment(initial)
        for number, delay in enumerate(delays):
            env.process(sleeper(env, number, delay))
        await env.until(until)      # (the asynchronous version of run)
        holder['now'] = env.now
        holder['native'] = usim.time.now

    if embedded:
        outcome = sess.run(native())
    else:
        outcome = sess.run(runner=standalone)
    violations = [dict(v) for v in sess.violations if v['mechanism'].startswith('kernel-')]
    what = 'Environment(%r) %s, delays %s, until=%r' % (
        initial, 'inside a native simulation' if embedded else 'standalone', delays, until)
    if outcome[0] != 'ok':
        violations.append({'mechanism': 'c18:run-failed', 'msg': '%s: %r' % (what, outcome[1])})
    else:
        if holder.get('now') != until or (embedded and holder.get('native') != until):
            violations.append({'mechanism': 'c18:until-time',
                               'msg': '%s: stopped at env.now %r (native clock %r)' % (
                                   what, holder.get('now'), holder.get('native'))})
        for number, delay in enumerate(delays):
            due = initial + delay
            if due < until and resumed.get(number) != due:
                violations.append({'mechanism': 'c18:until-time',
                                   'msg': '%s: the process due at %r (before the stop) %s' % (
                                       what, due, 'resumed at %r' % resumed[number]
                                       if number in resumed else 'never resumed')})
            elif due > until and number in resumed:
                violations.append({'mechanism': 'c18:until-time',
                                   'msg': '%s: the process due at %r resumed at %r although the '
                                          'run stops before' % (what, due, resumed[number])})
    for vio in violations:
        vio['case'] = dict(case)
    return violations, {'inexact_until_runs': 1}


def instant_processes(case):
    """a process whose generator ends - returns or fails - before its first yield is an event
    like any other: it fires in the time step in which it was started, with the value returned
    or the failure raised; whoever waits for it resumes then, an unhandled failure ends the run"""
    rng = random.Random('%s/%s/c18-instant' % (case['seed'], case['index']))
    fate = rng.choice(['value', 'none', 'fails', 'fails-unhandled'])
    started_at = rng.choice([0, 1, 2.5])
    waiters = rng.randint(1, 3) if fate != 'fails-unhandled' else 0
    embedded = rng.random() < 0.4
    log = []
    holder = {}
    sess = Session(budget_per_step=20000, budget_total=400000)

    def quick(env):
        if fate == 'value':
            return 'early'
        if fate.startswith('fails'):
            raise PlainSimErr('early')
        return
        yield env.timeout(1)        # (never reached: makes this a generator function)

    def waiter(env, process, number):
        try:
            value = yield process
            log.append((number, 'value', value, env.now))
        except SIM_ERRORS as err:
            log.append((number, 'caught', getattr(err, 'tag', None), env.now))

    def starter(env):
        if started_at:
            yield env.timeout(started_at)
        process = env.process(quick(env))
        holder['process'] = process
        # (whoever begins to wait *after* a failure happened, in the time step of the failure,
        # is in a race the statement does not decide: further waiters only for successes)
        for number in range(1, waiters if fate != 'fails' else 1):
            env.process(waiter(env, process, number))
        if waiters:
            # the usual `value = yield env.process(...)`: waiting before the process starts
            yield from waiter(env, process, 0)
        yield env.timeout(3)
        holder['alive_later'] = process.is_alive
        log.append(('starter', 'went on', None, env.now))

    def setup(env):
        env.process(starter(env))

    def standalone():
        env = usimpy.Environment()
        setup(env)
        env.run()

    async def native():
        env = usimpy.Environment()
        async with env:
            setup(env)

    outcome = sess.run(native()) if embedded else sess.run(runner=standalone)
    violations = [dict(v) for v in sess.violations if v['mechanism'].startswith('kernel-')]
    what = 'a process that %s before its first yield, started at %r, %d waiting for it (%s)' % (
        fate, started_at, waiters, 'embedded' if embedded else 'standalone')
    if fate == 'fails-unhandled':
        failure = outcome[1] if outcome[0] == 'exc' else None
        leaves = failure.flattened().children if isinstance(failure, usim.Concurrent) else (failure,)
        if not any(isinstance(leaf, PlainSimErr) for leaf in leaves):
            violations.append({'mechanism': 'c18:unhandled-failure-lost',
                               'msg': '%s: run ended with %r' % (what, outcome[1])})
    elif outcome[0] != 'ok':
        violations.append({'mechanism': 'c18:run-failed', 'msg': '%s: %r' % (what, outcome[1])})
    else:
        expected = {(number, 'caught', 'early', started_at) if fate == 'fails' else
                    (number, 'value', 'early' if fate == 'value' else None, started_at)
                    for number in range(waiters if fate != 'fails' else 1)} | {
                        ('starter', 'went on', None, started_at + 3)}
        if set(log) != expected or len(log) != len(expected) or holder.get('alive_later'):
            violations.append({'mechanism': 'c18:process-log-differs',
                               'msg': '%s: logged %s (alive afterwards: %r), expected %s' % (
                                   what, log, holder.get('alive_later'), sorted(expected, key=str))})
    for vio in violations:
        vio['case'] = dict(case)
    return violations, {'instant_processes_followed': 1}


def run_case(case):
    if case['index'] % 20 == 9:
        violations, extra = instant_processes(case)
        return {'evals': 1, 'sigs': [], 'stats': extra, 'violations': violations, 'sample': None}
    if case['index'] % 20 == 17:
        violations, extra = inexact_until(case)
        return {'evals': 1, 'sigs': [], 'stats': extra, 'violations': violations, 'sample': None}
    if case['index'] % 20 == 13:
        violations, extra = abandoned_waits(case)
        return {'evals': 1, 'sigs': [], 'stats': extra, 'violations': violations, 'sample': None}
    if case['index'] % 20 == 11:
        violations, extra = native_outcomes(case)
        return {'evals': 1, 'sigs': [], 'stats': extra, 'violations': violations, 'sample': None}
    rng = random.Random('%s/%s/c18' % (case['seed'], case['index']))
    spec = Gen(rng).program()
    out = compare(case, spec)
    violations, stats = out[0], out[1]
    sigs = []
    sample = None
    if len(out) > 4:
        world, digest_parts, interacting, ref_world = out[2], out[3], out[4], out[5]
        if interacting >= 1 and len(ref_world.logs) >= 2:
            sigs.append(str(hash(tuple(digest_parts)) & 0xffffffffffff))
        if case['index'] % 3 == 0:
            violations += embedded_family(case, spec, ref_world, stats)
        if case['index'] % 50 == 0:
            violations += native_yield_family(case, rng, stats)
        if case['index'] < 16:
            sample = {'program': spec, 'reference_logs': {k: [list(map(str, e)) for e in v]
                                                          for k, v in ref_world.logs.items()}}
    return {'evals': 2, 'sigs': sigs, 'stats': stats, 'violations': violations,
            'sample': sample}
