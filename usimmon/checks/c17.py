"""C17 - Concurrent[...] handlers select exactly the documented sets of failures"""
import abc
import itertools

from .. import bootstrap  # noqa: F401

from usim import Concurrent

PROPERTY = 'C17'
LEVEL = 'exploration'
EXHAUSTIVE = True
RULE = (
    'EXHAUSTIVE over a class hierarchy - quick: 7 classes (chain Base > Mid > Leaf, sibling, '
    'unrelated, a second class that is also *named* Leaf, a class with metaclass ABCMeta) + 1 nested Concurrent type; thorough: 9 '
    'classes + 2 nested types: every raised '
    'sequence of 1-3 child exceptions (all orders, repetitions) x every handler specialisation '
    'of 1-3 listed types with and without `...`, bare Concurrent and Concurrent[...]. For each '
    'pair the set-theoretic rule of the statement (reference predicate, recursive for nested '
    'Concurrent children) is compared with isinstance, issubclass and a real try/except; '
    'type(exc) must only depend on the set of child types, equal specialisations must be the '
    'identical class - also when made in another thread -, flattened() must keep the leaves and their order, also when the same failure object or nested group occurs more than once in the tree. non-trivial = pair with '
    '>= 2 distinct child types or a nested child; distinct = (raised types, handler)'
)
RULE = RULE + (' Further: the empty multiset / Concurrent[()], `...` in every position, identity across simulations and threads, classes with colliding hashes, a class with two unrelated bases, leaves with group-like attributes or a false truth value.')

LEVEL_TEXT = (
    'Exhaustive runtime comparison of the real isinstance / issubclass / except behaviour with '
    'a reference predicate written from the statement, over the complete finite space of the '
    'stated hierarchy (no sampling).')
TECHNIQUE = 'runtime monitoring: exhaustive differential of isinstance/issubclass/except against a reference predicate'
ASSUMPTIONS = ['the finite hierarchy is representative (chain, siblings, unrelated, nested Concurrent)']
REQUIRED_STATS = ['pairs', 'except_evaluations', 'type_identity_checks', 'flatten_checks']


class Base(Exception):
    pass


class Mid(Base):
    pass


class Leaf(Mid):
    pass


class Sib(Base):
    pass


class Sib2(Base):
    pass


class Other(Exception):
    pass


class OtherLeaf(Other):
    pass


#: a *different* class that merely has the same name as ``Leaf`` (e.g. csv.Error / binascii.Error)
LeafTwin = type('Leaf', (Other,), {})



class EmptyOther(Other):
    """a failure whose truth value is false (an error collection that happens to be empty)"""
    def __len__(self):
        return 0


class Bucket(type):
    """a metaclass that hashes all its classes alike (and all sets of them with it): equal
    hashes are no reason to confuse two different sets of types"""
    def __hash__(cls):
        return 7


class DiskFull(Exception, metaclass=Bucket):
    pass


class DiskGone(Exception, metaclass=Bucket):
    pass


class MetaLeaf(Mid, metaclass=abc.ABCMeta):
    """an exception class whose metaclass is not plain `type` (e.g. one that mixes in an ABC)"""


class Both(Sib, Other):
    """a class with two unrelated bases (a ``ConfigKeyError(ConfigError, KeyError)``): one child
    of it is a witness for either base - and for both of them in one handler"""


QUICK_CLASSES = [Base, Mid, Leaf, Sib, Other, LeafTwin, MetaLeaf, Both, Exception]
THOROUGH_CLASSES = [Base, Mid, Leaf, Sib, Sib2, Other, OtherLeaf, LeafTwin, MetaLeaf, Both,
                    Exception]


def atoms(tier):
    """type atoms: plain classes and nested Concurrent types (described, built lazily)"""
    classes = QUICK_CLASSES if tier == 'quick' else THOROUGH_CLASSES
    result = [('E', cls) for cls in classes]
    result.append(('C', (('E', Mid),), False))              # Concurrent[Mid]
    if tier != 'quick':
        result.append(('C', (('E', Leaf), ('E', Other)), False))   # Concurrent[Leaf, Other]
    return result


def build_type(atom):
    if atom[0] == 'E':
        return atom[1]
    listed = tuple(build_type(sub) for sub in atom[1])
    if atom[2]:
        listed = listed + (...,)
    return Concurrent[listed if len(listed) != 1 else listed[0]]


def build_instance(atom):
    if atom[0] == 'E':
        return atom[1]()
    return Concurrent(*[build_instance(sub) for sub in atom[1]])


def type_matches(child, listed):
    """reference: is a child of type ``child`` matched by the listed type ``listed``?"""
    if child[0] == 'E' and listed[0] == 'E':
        return issubclass(child[1], listed[1])
    if child[0] == 'C' and listed[0] == 'C':
        return rule(child[1], listed[1], listed[2])
    return False


def rule(children, listed, inclusive):
    """the statement: every listed type is matched by some child and (unless `...`) every
    child matches some listed type"""
    if not all(any(type_matches(child, want) for child in children) for want in listed):
        return False
    if inclusive:
        return True
    return all(any(type_matches(child, want) for want in listed) for child in children)


def leaves_of(atom):
    if atom[0] == 'E':
        return [atom[1]]
    result = []
    for sub in atom[1]:
        result.extend(leaves_of(sub))
    return result


def raised_space(tier):
    space = atoms(tier)
    # (also the empty multiset: a failure without any children is matched by handlers that
    # list nothing - bare, `...`, `Concurrent[()]` - and by no other)
    for size in (0, 1, 2, 3):
        yield from itertools.product(space, repeat=size)


def handler_space(tier):
    space = atoms(tier)
    yield ('bare', (), True)
    yield ('ellipsis', (), True)
    yield ('spec', (), False)       # Concurrent[()]: lists nothing and allows nothing
    for size in (1, 2, 3):
        for listed in itertools.combinations(space, size):
            yield ('spec', listed, False)
            yield ('spec', listed, True)


_RAISED = {}


def n_cases(tier):
    if tier not in _RAISED:
        _RAISED[tier] = list(raised_space(tier))
    return len(_RAISED[tier])


def make_case(seed, index, tier):
    return {'index': index, 'tier': tier}


def handler_class(handler, ellipsis_at=None):
    kind, listed, inclusive = handler
    if kind == 'bare':
        return Concurrent
    if kind == 'ellipsis':
        return Concurrent[...]
    items = tuple(build_type(atom) for atom in listed)
    if inclusive:
        # a specialisation is determined by the *set* of its items: wherever the `...` is
        # spelled, it is the same class (the trailing position is merely the documented one)
        at = len(items) if ellipsis_at is None else ellipsis_at % (len(items) + 1)
        items = items[:at] + (...,) + items[at:]
    return Concurrent[items if len(items) != 1 else items[0]]


def describe(atom):
    if atom[0] == 'E':
        return 'LeafTwin' if atom[1] is LeafTwin else atom[1].__name__
    return 'Concurrent[%s%s]' % (', '.join(describe(sub) for sub in atom[1]),
                                 ', ...' if atom[2] else '')


def run_case(case):
    tier = case['tier']
    n_cases(tier)
    raised = _RAISED[tier][case['index']]
    violations = []
    stats = {'pairs': 0, 'except_evaluations': 0, 'type_identity_checks': 0, 'flatten_checks': 0,
             'matches': 0, 'except_known_mismatch': 0}
    sigs = []
    exc = build_instance(('C', raised, False))
    children = tuple(raised)
    raised_text = 'Concurrent(%s)' % ', '.join(describe(a) + '()' for a in raised)
    # ---- the type depends only on the set of child types ----
    for perm in itertools.permutations(raised):
        other = build_instance(('C', perm + perm[:1], False))
        stats['type_identity_checks'] += 1
        if type(other) is not type(exc):
            violations.append({'mechanism': 'c17:type-depends-on-order-or-multiplicity',
                               'msg': 'type(%s) is not type of the same children reordered / '
                                      'repeated' % raised_text})
    # (the type of a failure without children is the base class itself)
    expected_type = build_type(('C', tuple(sorted(set(raised), key=describe)), False)) \
        if raised else Concurrent
    stats['type_identity_checks'] += 1
    if type(exc) is not expected_type:
        violations.append({'mechanism': 'c17:specialisation-not-identical',
                           'msg': 'type(%s) is %r, Concurrent[...] of the same types is %r' % (
                               raised_text, type(exc), expected_type)})
    # ---- ... and not on the thread in which the failure or the handler class was made ----
    import threading
    made_elsewhere = []
    spec = ('C', tuple(sorted(set(raised), key=describe)), False)
    worker = threading.Thread(target=lambda: made_elsewhere.extend(
        [build_instance(('C', raised, False)), build_type(spec) if raised else Concurrent]))
    worker.start()
    worker.join()
    stats['type_identity_checks'] += 2
    stats['cross_thread_checks'] = stats.get('cross_thread_checks', 0) + 1
    if len(made_elsewhere) != 2:
        violations.append({'mechanism': 'c17:specialisation-not-identical',
                           'msg': 'building %s in another thread failed' % raised_text})
    else:
        foreign_exc, foreign_type = made_elsewhere
        if type(foreign_exc) is not type(exc) or foreign_type is not expected_type:
            violations.append({'mechanism': 'c17:specialisation-not-identical',
                               'msg': 'type(%s) / the equal specialisation made in another '
                                      'thread is a different class (%r vs %r)' % (
                                          raised_text, type(foreign_exc), type(exc))})
        try:
            raise foreign_exc
        except expected_type:
            pass
        except BaseException:  # noqa: B902
            violations.append({'mechanism': 'c17:except',
                               'msg': '%s raised by another thread is not caught by `except` '
                                      'with its own exact specialisation' % raised_text})
        foreign_exc.__traceback__ = None
    # ---- ... nor on how many other specialisations were made in the meantime (a failure that
    # is still alive keeps its class: asking for the same specialisation again gives that class)
    if case['index'] % 40 == 0:
        crowd = [Concurrent[type('Crowd%d' % number, (Exception,), {})] for number in range(700)]
        again = build_type(spec) if raised else Concurrent
        stats['type_identity_checks'] += 1
        stats['specialisations_in_between'] = stats.get('specialisations_in_between', 0) + len(crowd)
        if again is not type(exc):
            violations.append({'mechanism': 'c17:specialisation-not-identical',
                               'msg': 'after 700 other specialisations were made, %s is a new '
                                      'class, not the class of the failure that is still alive'
                                      % describe(spec)})
        try:
            raise exc
        except again:
            pass
        except BaseException:  # noqa: B902
            violations.append({'mechanism': 'c17:except',
                               'msg': '%s is no longer caught by `except` with its own exact '
                                      'specialisation after 700 other specialisations were made'
                                      % raised_text})
        exc.__traceback__ = None
        del crowd
    # ---- the rule follows the class hierarchy as it is *now*: a class registered as a
    # virtual subclass of an abstract exception class after a first look is matched from then on
    class Abstract(Exception, metaclass=abc.ABCMeta):
        pass

    class Late(Exception):
        pass
    late = Concurrent(Late())
    handler = Concurrent[Abstract]
    before = (isinstance(late, handler), issubclass(type(late), handler),
              isinstance(late, Concurrent[Abstract, ...]))
    Abstract.register(Late)
    after = (isinstance(late, handler), issubclass(type(late), handler),
             isinstance(late, Concurrent[Abstract, ...]))
    stats['dynamic_hierarchy_checks'] = stats.get('dynamic_hierarchy_checks', 0) + 1
    if before != (False, False, False) or after != (True, True, True):
        violations.append({'mechanism': 'c17:isinstance',
                           'msg': 'Concurrent(Late()) vs Concurrent[Abstract]: %s before and %s '
                                  'after Abstract.register(Late), expected all False / all True'
                                  % (before, after)})
    # ---- flattened keeps leaves and order ----
    flat = exc.flattened()
    want_leaves = []
    for atom in raised:
        want_leaves.extend(leaves_of(atom))
    got_leaves = [type(child) for child in flat.children]
    stats['flatten_checks'] += 1
    if got_leaves != want_leaves:
        violations.append({'mechanism': 'c17:flattened',
                           'msg': 'flattened() of %s has leaves %s, expected %s' % (
                               raised_text, got_leaves, want_leaves)})
    real_leaves = []

    def collect(err):
        for child in err.children:
            if isinstance(child, Concurrent):
                collect(child)
            else:
                real_leaves.append(child)
    collect(exc)
    if [id(c) for c in flat.children] != [id(c) for c in real_leaves]:
        violations.append({'mechanism': 'c17:flattened',
                           'msg': 'flattened() of %s does not carry the original leaf objects '
                                  'in order' % raised_text})
    # ---- the same failure objects may occur more than once in one tree (a failure that is
    # re-raised and collected again): every occurrence is a leaf of the flattened result ----
    shared_leaf = (EmptyOther if case['index'] % 2 else Other)('shared')
    # (a leaf is whatever is not a Concurrent - also an error that carries sub-errors of its own
    # in attributes that happen to be named like those of a group)
    shared_leaf.children = (KeyError('sub-error'), IndexError('sub-error'))
    shared_leaf.flattened = lambda: None
    inner = Concurrent(exc, shared_leaf)
    for tree, want_objects in (
            (Concurrent(exc, exc), real_leaves * 2),
            (Concurrent(exc, inner, shared_leaf),
             real_leaves + real_leaves + [shared_leaf, shared_leaf]),
            (Concurrent(inner, Concurrent(inner, Concurrent(exc))),
             (real_leaves + [shared_leaf]) * 2 + real_leaves),
            (Concurrent(shared_leaf, Concurrent(shared_leaf)), [shared_leaf, shared_leaf])):
        stats['flatten_checks'] += 1
        got = tree.flattened().children
        if [id(c) for c in got] != [id(c) for c in want_objects]:
            violations.append({'mechanism': 'c17:flattened',
                               'msg': 'flattened() of a tree in which %s (or a group holding it) '
                                      'occurs more than once has leaves %s, expected %s' % (
                                          raised_text, [type(c).__name__ for c in got],
                                          [type(c).__name__ for c in want_objects])})
    # ---- handlers ----
    for handler in handler_space(tier):
        kind, listed, inclusive = handler
        if kind == 'spec' and inclusive and (stats['pairs'] + case['index']) % 3 == 0:
            # spelled with the `...` somewhere else first, while no other spelling is alive
            cls = handler_class(handler, ellipsis_at=stats['pairs'])
            stats['unusual_ellipsis_positions'] = stats.get('unusual_ellipsis_positions', 0) + 1
            if handler_class(handler) is not cls:
                violations.append({'mechanism': 'c17:specialisation-not-identical',
                                   'msg': '%s spelled with the `...` in another position is a '
                                          'different class' % describe(('C', listed, inclusive))})
        else:
            cls = handler_class(handler)
        want = True if kind in ('bare', 'ellipsis') else rule(children, listed, inclusive)
        stats['pairs'] += 1
        stats['matches'] += int(want)
        text = describe(('C', listed, inclusive)) if kind == 'spec' else (
            'Concurrent' if kind == 'bare' else 'Concurrent[...]')
        if len(set(raised)) >= 2 or any(atom[0] == 'C' for atom in raised):
            sigs.append('%s|%s' % (raised_text, text))
        try:
            got_instance = isinstance(exc, cls)
            got_subclass = issubclass(type(exc), cls)
        except Exception as err:  # noqa: B902
            violations.append({'mechanism': 'c17:isinstance',
                               'msg': 'isinstance / issubclass of %s and %s raises %r' % (
                                   raised_text, text, err)})
            continue
        stats['except_evaluations'] += 1
        try:
            raise exc
        except cls:
            got_except = True
        except BaseException:  # noqa: B902
            got_except = False
        exc.__traceback__ = None
        if got_instance != want:
            violations.append({'mechanism': 'c17:isinstance',
                               'msg': 'isinstance(%s, %s) is %s, the rule says %s' % (
                                   raised_text, text, got_instance, want)})
        if got_subclass != want:
            violations.append({'mechanism': 'c17:issubclass',
                               'msg': 'issubclass(type(%s), %s) is %s, the rule says %s' % (
                                   raised_text, text, got_subclass, want)})
        if got_except != want:
            if want and not got_except and cls not in type(exc).__mro__:
                # D11: CPython's `except` tests the MRO and ignores __subclasscheck__
                stats['except_known_mismatch'] += 1
                violations.append({
                    'mechanism': 'c17:except-ignores-subclasscheck',
                    'msg': '`except %s` does not catch %s although the rule (and isinstance) '
                           'say it matches; the handler class is not in the MRO of the raised '
                           'class' % (text, raised_text)})
            else:
                violations.append({'mechanism': 'c17:except',
                                   'msg': '`except %s` %s %s, the rule says %s' % (
                                       text, 'catches' if got_except else 'does not catch',
                                       raised_text, want)})
        # identical class for equal specialisations, independent of the spelling order
        if kind == 'spec' and len(listed) > 1:
            again = handler_class((kind, tuple(reversed(listed)), inclusive))
            stats['type_identity_checks'] += 1
            if again is not cls:
                violations.append({'mechanism': 'c17:specialisation-not-identical',
                                   'msg': '%s spelled in reverse order is a different class' % text})
    # ---- equal specialisations are the identical class - also across simulations: handlers
    # built before a simulation (module level constants) meet failures built inside one ----
    kept = [(handler, handler_class(handler)) for handler in list(handler_space(tier))[
        case['index'] % 7::max(1, len(list(handler_space(tier))) // 6)] if handler[0] == 'spec']
    built_inside = []

    async def inside():
        for handler, _ in kept:
            built_inside.append(handler_class(handler))
        built_inside.append(type(build_instance(('C', raised, False))))
    import usim
    usim.run(inside())
    after_run = [handler_class(handler) for handler, _ in kept]
    stats['type_identity_checks'] += 2 * len(kept) + 1
    for (handler, before), during, after in zip(kept, built_inside, after_run):
        if during is not before or after is not before:
            violations.append({'mechanism': 'c17:specialisation-not-identical',
                               'msg': '%s built before, inside and after a simulation is not one '
                                      'and the same class' % describe(('C', handler[1], handler[2]))})
            break
    if built_inside and built_inside[-1] is not type(exc):
        violations.append({'mechanism': 'c17:specialisation-not-identical',
                           'msg': 'the type of %s built inside a simulation differs from the one '
                                  'built outside' % raised_text})
    # ---- different sets of types are different specialisations even if they hash alike ----
    if case['index'] % 40 == 1:
        full, gone = Concurrent(DiskFull()), Concurrent(DiskGone())
        both = Concurrent(DiskFull(), DiskGone())
        answers = (type(full) is not type(gone), type(full) is Concurrent[DiskFull],
                   type(gone) is Concurrent[DiskGone], isinstance(full, Concurrent[DiskFull]),
                   not isinstance(gone, Concurrent[DiskFull]),
                   not isinstance(full, Concurrent[DiskGone]),
                   isinstance(both, Concurrent[DiskFull, DiskGone]),
                   not isinstance(both, Concurrent[DiskFull]),
                   type(gone).specialisations == (DiskGone,))
        stats['type_identity_checks'] += len(answers)
        if not all(answers):
            violations.append({'mechanism': 'c17:specialisation-not-identical',
                               'msg': 'two exception classes whose hashes collide (metaclass '
                                      '__hash__) are confused: checks %s' % (answers,)})
    # ---- a handler matches failures only: what is no Concurrent is matched by none ----
    if case['index'] % 40 == 2:
        answers = []
        for handler in list(handler_space(tier))[case['index'] // 40 % 5::5]:
            cls = handler_class(handler) if handler[0] == 'spec' else Concurrent
            for plain in (Leaf, Base, Other, Exception, BaseException, KeyError, object, int):
                answers.append(not issubclass(plain, cls))
                if plain not in (object, int, BaseException):
                    answers.append(not isinstance(plain('x'), cls))
            answers.append(not isinstance(None, cls) and not isinstance(Leaf, cls))
        stats['pairs'] += len(answers)
        if not all(answers):
            violations.append({'mechanism': 'c17:isinstance',
                               'msg': 'an exception (class) that is no Concurrent is matched by '
                                      'a Concurrent handler (%d of %d checks wrong)' % (
                                          answers.count(False), len(answers))})
    # keep one violation per mechanism per case (the space is large)
    seen = {}
    for vio in violations:
        seen.setdefault(vio['mechanism'], vio)
        seen[vio['mechanism']]['count'] = seen[vio['mechanism']].get('count', 0) + 1
    violations = list(seen.values())
    for vio in violations:
        vio['case'] = dict(case)
    sample = None
    if case['index'] in (0, 7, 40):
        sample = {'raised': raised_text, 'handlers_evaluated': stats['pairs']}
    return {'evals': stats['pairs'], 'sigs': sigs, 'stats': stats, 'violations': violations,
            'sample': sample}
