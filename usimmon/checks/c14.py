"""C14 - interval() ticks on a fixed grid, delay() pauses a fixed span, for any body"""
import random

from .. import bootstrap  # noqa: F401
from ..probe import Session

import usim
from usim import time, until, Scope, IntervalExceeded

PROPERTY = 'C14'
LEVEL = 'exploration'
RULE = (
    'tickers `async for now in interval(p)` / `delay(p)` (also created some time before they are iterated) with p in {0, 1/8, 1, 5, 20}, 1-12 '
    'iterations whose body durations are <, = and > p (also zero), start times {0, 3/8, 1e6, 1e10, 2**45}, '
    '1-4 tickers side by side, some inside until(time + D | time >= T | flag set by another activity) / nested scopes - also cut off exactly at a tick that did not have to wait and followed by another ticker of the same activity in that time step -, negative periods. '
    'Oracle: arithmetic model over the generated body-duration sequence - tick times, yielded '
    'value == time.now, IntervalExceeded exactly at the first iteration request after a body run '
    'longer than p, ValueError for p < 0 - and between the end of one body run and the next '
    'tick the ticker must have been re-activated by the loop (it yielded to the other runnable '
    'activities; FIFO order is C02). non-trivial = >= 2 ticks judged; distinct = trace'
)
RULE = RULE + (' Further: tickers iterated in pieces by several (or nested) simulations, negative and exact integer clocks, exact Decimal / Fraction time, negative periods the clock absorbs, loops over one ticker object that are left and entered again.')

LEVEL_TEXT = (
    'Exploration by runtime monitoring: tick times, yielded values and exceptions of the real '
    'iterators are compared with an arithmetic model for every generated body-duration '
    'sequence; the probe counts the activations between iterations.')
TECHNIQUE = 'runtime monitoring: logged tick times vs arithmetic model + activation count between iterations'
ASSUMPTIONS = ['dyadic periods and durations (exact float arithmetic)']
REQUIRED_STATS = ['ticks_checked', 'exceeded_checked', 'zero_period_ticks']

PERIODS = [0, 0, 0.125, 1, 1, 5, 20, 0.1, 0.1, 0.3, 0.7]


def n_cases(tier):
    return 3000 if tier == 'quick' else 300000


def make_case(seed, index, tier):
    rng = random.Random('%s/%s/c14' % (seed, index))
    tickers = []
    for number in range(rng.randint(1, 4)):
        period = rng.choice(PERIODS) if rng.random() < 0.95 else -rng.choice([0.5, 1, 1e-17, 5e-324])
        durations = []
        for _ in range(rng.randint(1, 12)):
            roll = rng.random()
            if roll < 0.35:
                durations.append(0)
            elif roll < 0.55:
                durations.append(max(period, 0))
            elif roll < 0.85:
                durations.append(max(period, 0) * rng.choice([0.25, 0.5]) if period > 0 else 0)
            else:
                durations.append(max(period, 0) + rng.choice([0.125, 1, 3]))
        deadline = rng.choice([None, None, None, 0.5, 2, 7, 30])
        tickers.append({'name': 'k%d' % number, 'how': rng.choice(['interval', 'delay']),
                        'period': period, 'durations': durations, 'deadline': deadline,
                        'offset': rng.choice([0, 0, 0.375, 1]), 'scoped': rng.random() < 0.3,
                        # the ticker object is created some time before it is iterated
                        'early': rng.choice([None, None, None, 0, 0.375, 1, max(period, 0) + 1]),
                        # after that many ticks the iterator is handed to a child activity
                        'handover': rng.choice([None, None, None, 1, 2]),
                        # after these numbers of ticks the loop is left and entered again
                        'reenter': rng.choice([[], [], [1], [2], [1, 3], [1, 2, 4]])})
    for ticker in tickers:
        # what ends the enclosing until() block: a delay, a date, or a flag set by somebody else
        ticker['deadline_kind'] = rng.choice(['delay', 'delay', 'date', 'flag'])
        if ticker['deadline'] is not None and rng.random() < 0.5:
            # when the block has ended the same activity goes on with another ticker, in the
            # time step in which it left the first one
            period = rng.choice([1, 2.5, 7, 10])
            ticker['sequel'] = {
                'name': ticker['name'] + '+', 'how': rng.choice(['interval', 'delay']),
                'period': period, 'deadline': None,
                'durations': [rng.choice([0, 0.5, 1, period]) for _ in range(rng.randint(2, 3))]}
            if rng.random() < 0.5:
                # ... and the first one is cut off exactly at a tick before which it did not
                # have to wait (body runs of exactly one period / no period at all)
                first = rng.choice([0, 1, 2, 5, 10])
                step = first or rng.choice([1, 2])
                ticker.update(period=first, early=None, offset=rng.choice([0, 1]), handover=None,
                              durations=[step] * rng.randint(3, 6))
                ticker['deadline'] = ticker['offset'] + step * rng.randint(1, len(ticker['durations']) - 1)
    if rng.random() < 0.04:
        # a ticker that only starts when time has reached infinity (every delay has passed):
        # it still ticks - at inf, letting the others run - and never spuriously overruns
        ticker = rng.choice(tickers)
        ticker.pop('sequel', None)
        ticker.update(offset='inf', deadline=None, early=None, scoped=False)
        ticker['period'] = rng.choice([0, 1, 5, 'inf'])
        ticker['durations'] = [rng.choice([0, 0, 1, 'inf']) for _ in ticker['durations'][:4]]
    if rng.random() < 0.08:
        # an exact integer clock beyond float precision (e.g. nanosecond time stamps): integer
        # periods, body durations, offsets and deadlines only - the grid stays exact
        for ticker in tickers:
            ticker.pop('sequel', None)
            ticker['deadline_kind'] = 'delay'
            period = ticker['period'] = rng.choice([0, 1, 5, 1000])
            ticker['durations'] = [rng.choice([0, period, max(period - 1, 0), period + 1,
                                               period // 2]) for _ in ticker['durations']]
            ticker['offset'] = rng.choice([0, 1])
            ticker['deadline'] = rng.choice([None, None, 7, 3000])
            ticker['early'] = rng.choice([None, None, 0, 1, period + 1])
        return {'seed': seed, 'index': index, 'tier': tier, 'tickers': tickers,
                'start': rng.choice([2 ** 60, 2 ** 53 + 1, 1700000000 * 10 ** 9])}
    return {'seed': seed, 'index': index, 'tier': tier, 'start': rng.choice([0, 0, 0.375, 1e6, 1e10, 2.0 ** 45, -10, -5, -1, -0.375]),
            'tickers': tickers}


def num(value):
    return float('inf') if value == 'inf' else value


def expected(spec, begin):
    """list of (tick time) and the terminal event, ignoring any deadline"""
    period = num(spec['period'])
    if period < 0:
        return [], 'ValueError'
    ticks = []
    now = begin
    last = begin
    for duration in map(num, spec['durations']):
        if spec['how'] == 'interval':
            # (what is waited for is the span left until the next grid point: with inexact
            # periods `now + (due - now)` may differ from `due` in the last digit)
            remaining = last + period - now
            if remaining != remaining:
                remaining = 0       # at infinite time: the grid point is "now"
            if remaining < 0:
                return ticks, 'IntervalExceeded'
            now = now + remaining
            last = now
        else:
            now = now + period
        ticks.append(now)
        now = now + duration
    # one more request after the last body run: break happens in the body, so no request
    return ticks, 'done'


def run_segments(case):
    """one ticker iterated in pieces: by several simulations one after the other (a simulation
    run in segments), or partly by a simulation nested in the one that began it"""
    rng = random.Random('%s/%s/c14seg' % (case['seed'], case['index']))
    spec = dict(case['tickers'][0])
    period = abs(num(spec['period']))
    if period == float('inf'):
        period = 5
    durations = [abs(num(d)) if num(d) != float('inf') else 1 for d in spec['durations']]
    durations = (durations * 3)[:rng.randint(3, 9)]
    maker = usim.interval if spec['how'] == 'interval' else usim.delay
    nested = rng.random() < 0.4
    cuts = sorted({rng.randint(1, len(durations) - 1) for _ in range(2)})
    pieces = [durations[a:b] for a, b in zip([0] + cuts, cuts + [len(durations)])]
    gaps = [rng.choice([0, 0, period * 0.5, period, period + 1, 'reset']) for _ in pieces]
    offsets = [rng.choice([0, 0, 0.375, 1]) for _ in pieces]
    box, log, marks, end = [], [], [], [None]
    violations = []

    async def piece(number):
        if offsets[number]:
            await (time + offsets[number])
        if not box:
            box.append(maker(period).__aiter__())
        marks.append(time.now)
        if end[0] is not None:
            return
        try:
            for duration in pieces[number]:
                now = await box[0].__anext__()
                log.append((time.now, now))
                if duration:
                    await (time + duration)
        except IntervalExceeded:
            end[0] = ('IntervalExceeded', time.now)
        marks.append(time.now)

    def named(coro, name):
        coro.__name__ = coro.__qualname__ = name
        return coro

    # the clock of every piece, from the model
    start = case['start'] if not isinstance(case['start'], int) else 0
    ticks, terminal = [], 'done'
    clock, last = start, None
    starts = []
    for number, durations_here in enumerate(pieces):
        if number:
            if nested and number == 1:
                piece_start = 1000 + start        # the nested simulation has a clock of its own
            elif nested and number == 2:
                piece_start = None                # back in the enclosing simulation
            elif gaps[number] == 'reset':
                piece_start = start
            else:
                piece_start = clock + gaps[number]
        else:
            piece_start = start
        starts.append(piece_start)
        if nested and number == 1:
            outer_clock = clock
        if piece_start is not None:
            clock = piece_start
        else:
            clock = outer_clock
        clock = clock + offsets[number]
        if terminal != 'done':
            continue
        for duration in durations_here:
            if last is None:
                last = clock
            if spec['how'] == 'interval':
                # (the span left until the next grid point is what is waited for: with inexact
                # periods `clock + (due - clock)` may differ from `due` in the last digit)
                remaining = last + period - clock
                if remaining < 0:
                    terminal = 'IntervalExceeded'
                    break
                clock = last = clock + remaining
            else:
                clock = clock + period
            ticks.append(clock)
            clock = clock + duration
    try:
        if nested:
            async def outer():
                await piece(0)
                if len(pieces) > 1:
                    usim.run(named(piece(1), 'nested-piece'), start=starts[1])
                if len(pieces) > 2:
                    await piece(2)
            sessions = [Session()]
            outcomes = [sessions[0].run(named(outer(), 'pieces'), start=start)]
        else:
            sessions, outcomes = [], []
            for number in range(len(pieces)):
                sessions.append(Session())
                outcomes.append(sessions[-1].run(named(piece(number), 'piece%d' % number),
                                                 start=starts[number]))
    finally:
        box.clear()
    for sess, outcome in zip(sessions, outcomes):
        violations += [dict(v) for v in sess.violations if v['mechanism'].startswith('kernel-')]
        if outcome[0] != 'ok':
            violations.append({'mechanism': 'c14:run-failed',
                               'msg': 'run() ended with %r' % (outcome[1],)})
    what = '%s(%r) iterated in %d pieces (%s; body durations %s, clocks %s, offsets %s)' % (
        spec['how'], period, len(pieces), 'the second by a nested simulation' if nested
        else 'by simulations run one after the other', pieces, starts, offsets)
    for position, (when, value) in enumerate(log):
        if value != when:
            violations.append({'mechanism': 'c14:yielded-value',
                               'msg': '%s: yielded %r at time %r' % (what, value, when)})
        if position < len(ticks) and when != ticks[position]:
            violations.append({'mechanism': 'c14:wrong-tick-time',
                               'msg': '%s: tick %d at %r, expected %r' % (
                                   what, position, when, ticks[position])})
            break
    if len(log) != len(ticks) and not violations:
        violations.append({'mechanism': 'c14:missing-tick' if len(log) < len(ticks)
                           else 'c14:extra-tick',
                           'msg': '%s: %d ticks, model expects %d (%s)' % (
                               what, len(log), len(ticks), terminal)})
    got_end = end[0][0] if end[0] else 'done'
    if got_end != terminal and not violations:
        violations.append({'mechanism': 'c14:wrong-termination',
                           'msg': '%s: ended with %s, model expects %s' % (what, got_end, terminal)})
    for vio in violations:
        vio['case'] = dict(case)
    stats = {'ticks_checked': len(log), 'exceeded_checked': int(terminal != 'done'),
             'zero_period_ticks': len(log) if period == 0 else 0, 'iterated_in_pieces': 1,
             'activations': sum(sess.n for sess in sessions)}
    return {'evals': 1, 'sigs': [sessions[0].signature()] if len(log) >= 2 else [],
            'stats': stats, 'violations': violations, 'sample': None}


def exact_numbers(case):
    """the same case on exact time: every number a Decimal / a Fraction (the clock takes any
    number type that adds and compares; simulations of money or calendars want exact ones)"""
    import decimal
    import fractions
    make = (lambda v: decimal.Decimal(str(v))) if case['index'] % 2 else (
        lambda v: fractions.Fraction(str(v)))

    def conv(value):
        if isinstance(value, bool) or value is None or isinstance(value, str):
            return value
        if isinstance(value, (int, float)):
            return make(value)
        if isinstance(value, list):
            return [conv(item) for item in value]
        if isinstance(value, dict):
            return {key: (item if key in ('seed', 'index', 'handover') else conv(item))
                    for key, item in value.items()}
        return value
    return conv(case)


def run_case(case):
    if case['index'] % 12 == 5:
        return run_segments(case)
    if case['index'] % 12 == 7 and isinstance(case['start'], float) and case['start'] < 1e6 \
            and not any(value == 'inf' for spec in case['tickers'] for value in (
                [spec['period'], spec['offset']] + list(spec['durations']))):
        case = exact_numbers(case)
    sess = Session()
    log = {spec['name']: [] for spec in case['tickers']}
    ends = {spec['name']: None for spec in case['tickers']}
    begins = {}
    yields = {spec['name']: [] for spec in case['tickers']}
    stats_early = [0, 0, 0, 0]
    for spec in [spec['sequel'] for spec in case['tickers'] if spec.get('sequel')]:
        log[spec['name']] = []
        ends[spec['name']] = None
        yields[spec['name']] = []
    flags = {spec['name']: usim.Flag() for spec in case['tickers']
             if spec['deadline'] is not None and spec.get('deadline_kind') == 'flag'}

    def setter(name, deadline):
        async def switch():
            await (time + deadline)
            await flags[name].set()
        coro = switch()
        coro.__name__ = coro.__qualname__ = 'set-' + name
        return coro

    def ticker(spec):
        name = spec['name']

        state = {'count': 0, 'body_end_n': None}

        async def consume(box, limit):
            """run body iterations on the iterator in box[0]; True when the ticker is finished"""
            try:
                while limit is None or state['count'] < limit:
                    if state['count'] and state['count'] in spec.get('reenter', ()):
                        # the loop over the ticker was left by `break` and is entered again
                        # (`async for` asks the same object for its iterator once more): it
                        # goes on where it was - the time in between is time of the body
                        box[0] = box[0].__aiter__()
                        stats_early[3] += 1
                    now = await box[0].__anext__()
                    log[name].append((time.now, now, sess.n, state['body_end_n']))
                    duration = num(spec['durations'][state['count']])
                    if duration:
                        await (time + duration)
                    state['count'] += 1
                    state['body_end_n'] = sess.n
                    if state['count'] >= len(spec['durations']):
                        ends[name] = ('done', time.now)
                        return True
                return False
            except IntervalExceeded:
                ends[name] = ('IntervalExceeded', time.now)
            except ValueError:
                ends[name] = ('ValueError', time.now)
            return True

        async def body():
            if spec['offset']:
                await (time + num(spec['offset']))
            maker = usim.interval if spec['how'] == 'interval' else usim.delay
            # kept in a box that is emptied on the way out, never in a local of its own
            # (see known finding D16 of C03)
            box = []
            try:
                try:
                    box.append(maker(num(spec['period'])).__aiter__())
                except ValueError:
                    ends[name] = ('ValueError', time.now)
                    return
                if spec.get('early') is not None:
                    if spec['early']:
                        await (time + spec['early'])
                    stats_early[0] += 1
                begins[name] = time.now
                if spec.get('handover'):
                    # the first ticks are taken by this activity, the rest by a child of it
                    if not await consume(box, spec['handover']):
                        stats_early[1] += 1
                        async with Scope() as inner:
                            inner.do(consume(box, None))
                else:
                    await consume(box, None)
            finally:
                box.clear()

        async def follow(seq):
            box = []
            try:
                box.append((usim.interval if seq['how'] == 'interval' else usim.delay)(
                    num(seq['period'])).__aiter__())
                begins[seq['name']] = time.now
                count, body_end = 0, None
                try:
                    while True:
                        now = await box[0].__anext__()
                        log[seq['name']].append((time.now, now, sess.n, body_end))
                        duration = num(seq['durations'][count])
                        if duration:
                            await (time + duration)
                        count += 1
                        body_end = sess.n
                        if count >= len(seq['durations']):
                            ends[seq['name']] = ('done', time.now)
                            return
                except IntervalExceeded:
                    ends[seq['name']] = ('IntervalExceeded', time.now)
            finally:
                box.clear()

        def ending():
            kind = spec.get('deadline_kind', 'delay')
            if kind == 'date':
                return time >= case['start'] + spec['deadline']
            if kind == 'flag':
                return flags[name]
            return time + spec['deadline']

        async def run():
            await first()
            if spec.get('sequel'):
                stats_early[2] += 1
                await follow(spec['sequel'])

        async def first():
            if spec['deadline'] is not None:
                async with until(ending()):
                    if spec['scoped']:
                        async with Scope() as scope:
                            scope.do(body())
                    else:
                        await body()
                if ends[name] is None:
                    ends[name] = ('deadline', time.now)
            elif spec['scoped']:
                async with Scope() as scope:
                    scope.do(body())
            else:
                await body()
        coro = run()
        coro.__name__ = coro.__qualname__ = name
        return coro

    outcome = sess.run(*[setter(spec['name'], spec['deadline']) for spec in case['tickers']
                         if spec['name'] in flags],
                       *[ticker(spec) for spec in case['tickers']], start=case['start'])
    violations = [dict(v) for v in sess.violations if v['mechanism'].startswith('kernel-')]
    stats = {'ticks_checked': 0, 'exceeded_checked': 0, 'zero_period_ticks': 0,
             'cut_by_deadline': 0, 'value_errors': 0, 'activations': sess.n,
             'created_before_iteration': stats_early[0],
             'handed_to_another_activity': stats_early[1],
             'followed_by_another_ticker': stats_early[2],
             'loops_entered_again': stats_early[3]}
    if outcome[0] != 'ok':
        violations.append({'mechanism': 'c14:run-failed',
                           'msg': 'run() ended with %r' % (outcome[1],)})
    judged = 0
    for spec in case['tickers'] + [spec['sequel'] for spec in case['tickers'] if spec.get('sequel')]:
        name = spec['name']
        begin = begins.get(name)
        if begin is None:
            continue
        ticks, terminal = expected(spec, begin)
        limit = None
        if spec['deadline'] is not None:
            limit = case['start'] + spec['deadline']
        got = log[name]
        for position, (when, value, n_now, n_body_end) in enumerate(got):
            stats['ticks_checked'] += 1
            judged += 1
            if spec['period'] == 0:
                stats['zero_period_ticks'] += 1
            if value != when:
                violations.append({'mechanism': 'c14:yielded-value',
                                   'msg': '%s yielded %r at time %r' % (name, value, when)})
            if position >= len(ticks):
                violations.append({'mechanism': 'c14:extra-tick',
                                   'msg': '%s ticked at %r after the model ended with %s' % (
                                       name, when, terminal)})
                continue
            if when != ticks[position]:
                violations.append({
                    'mechanism': 'c14:wrong-tick-time',
                    'msg': '%s(%r) of %s: tick %d at %r, expected %r (body durations %s, begun '
                           'at %r)' % (spec['how'], spec['period'], name, position, when,
                                       ticks[position], spec['durations'], begin)})
            if limit is not None and when > limit:
                violations.append({'mechanism': 'c14:tick-after-deadline',
                                   'msg': '%s ticked at %r after its until() deadline %r' % (
                                       name, when, limit)})
            if n_body_end is not None and n_now == n_body_end:
                violations.append({
                    'mechanism': 'c14:no-yield-between-iterations',
                    'msg': '%s(%r) of %s: iteration %d began in the same activation in which '
                           'the previous body run ended (did not let others run)' % (
                               spec['how'], spec['period'], name, position)})
        # completeness
        end = ends[name]
        expect_count = len(ticks)
        if limit is not None:
            certain = [tick for tick in ticks if tick < limit]
            if len(got) < len(certain):
                violations.append({'mechanism': 'c14:missing-tick',
                                   'msg': '%s: %d ticks, %d were due before the deadline %r' % (
                                       name, len(got), len(certain), limit)})
            if end is not None and end[0] == 'deadline':
                stats['cut_by_deadline'] += 1
                continue
        elif len(got) != expect_count:
            violations.append({'mechanism': 'c14:missing-tick',
                               'msg': '%s: %d ticks logged, model expects %d (%s)' % (
                                   name, len(got), expect_count, terminal)})
        if end is None:
            if limit is None:
                violations.append({'mechanism': 'c14:never-ended',
                                   'msg': '%s never ended (model: %s)' % (name, terminal)})
            continue
        if terminal == 'IntervalExceeded' or end[0] == 'IntervalExceeded':
            stats['exceeded_checked'] += 1
        if terminal == 'ValueError':
            stats['value_errors'] += 1
        if end[0] != terminal and not (limit is not None and end[1] >= limit):
            violations.append({
                'mechanism': 'c14:wrong-termination',
                'msg': '%s(%r) of %s ended with %s at %r, model expects %s (durations %s)' % (
                    spec['how'], spec['period'], name, end[0], end[1], terminal,
                    spec['durations'])})
    for vio in violations:
        vio['case'] = dict(case)
    sample = None
    if case['index'] < 16:
        sample = {'case': case, 'ticks': {k: [list(map(str, t[:2])) for t in v]
                                          for k, v in log.items()}, 'ends': ends}
    return {'evals': 1, 'sigs': [sess.signature()] if judged >= 2 else [], 'stats': stats,
            'violations': violations, 'sample': sample}
