"""C15 - run() ends at quiescence, reports failures and keeps simulations isolated"""
import hashlib
import random
import sys
import threading

from .. import bootstrap  # noqa: F401
from ..probe import Session
from ..c02trace import build_single as build_program, normalise
from ..prog import execute

import usim
from usim import time, Scope
from usim._core.loop import ActivityLeak

PROPERTY = 'C15'
LEVEL = 'exploration'
RULE = (
    'family A (histories): 1-8 consecutive runs on one thread drawn from {successful, failing '
    'root, root returning a value, run(till), nested run inside an activity, nested failing '
    'run}; checks: roots begin at `start` in argument order, run() returns only when no '
    'unrevoked activation is scheduled (kernel monitor), the exception leaving run() is the '
    'identical object first raised out of a root, a returned value is reported as an error, '
    'time.now raises before / between / after runs and reads the enclosing simulation\'s time '
    'after a nested run and raises in threads started by an activity (plain, pool, running in a copy of the activity\'s contextvars context), the enclosing simulation\'s log equals the log of the same program '
    'without the nested run. family B (threads): 2-16 threads each running 10-60 generated '
    'programs concurrently with sys.setswitchinterval(1e-6) (thorough: plus sys.monitoring '
    'LINE-event yield injection inside usim/_core) while a prober thread reads time.now; every '
    'per-thread event-log digest must equal the digest of the same program run alone. '
    'non-trivial = history with >= 2 runs / thread batch in which thread switches between '
    'activations were observed; distinct = history or digest'
)
RULE = RULE + (' Further: infinite sleepers, exact integer clocks, nested runs ending with SystemExit / KeyboardInterrupt, leaked values of many kinds (falsy, equal to everything), StopAsyncIteration escaping a root, same-named threads.')

LEVEL_TEXT = (
    'Exploration by runtime monitoring: run histories are checked against the statement on the '
    'real entry point; real OS threads run many simulations concurrently under forced GIL '
    'hand-overs while the probe counts the thread switches it observed and a prober thread '
    'watches for a simulation becoming visible outside its thread.')
TECHNIQUE = 'runtime monitoring: run-history checker + differential per-thread traces under forced thread interleaving, foreign-thread visibility prober'
ASSUMPTIONS = [
    'thread batches use programs whose activities all end (no left-over suspended coroutines '
    'whose finalisation by the garbage collector could run in another thread)',
]
REQUIRED_STATS = ['histories', 'runs_in_histories', 'foreign_thread_reads', 'thread_batches', 'thread_switches_observed',
                  'prober_reads']


def n_cases(tier):
    return 420 if tier == 'quick' else 2400


def make_case(seed, index, tier):
    family = 'threads' if index % 7 == 6 else 'history'
    return {'seed': seed, 'index': index, 'tier': tier, 'family': family}


def now_raises():
    try:
        time.now
    except RuntimeError:
        return True
    return False


class Boom(Exception):
    pass


class ExitBoom(SystemExit):
    """a nested simulation may end with any exception - also with one of those that scopes pass
    on unwrapped; the enclosing simulation goes on all the same"""


class KeyboardBoom(KeyboardInterrupt):
    pass


class AlwaysEqual:
    """a value that compares equal to everything (like unittest.mock.ANY) - also to None"""
    def __eq__(self, other):
        return True

    def __ne__(self, other):
        return False

    __hash__ = object.__hash__


class AsyncDone(StopAsyncIteration):
    """what `await iterator.__anext__()` raises at the end of an iteration nobody guarded: an
    exception like any other once it escapes a root activity"""


class EmptyBoom(Boom):
    """a falsy exception (like an empty error collection): a failure like any other"""
    def __len__(self):
        return 0


def read_from_foreign_threads():
    """[(kind of thread, what reading time.now gave there)] - called from inside an activity"""
    import concurrent.futures
    import contextvars
    results = []

    def read(how):
        try:
            results.append((how, time.now))
        except RuntimeError:
            results.append((how, 'RuntimeError'))
        except BaseException as exc:  # noqa: B902
            results.append((how, 'raised %r' % (exc,)))
    context = contextvars.copy_context()
    threads = [threading.Thread(target=read, args=('plain thread',)),
               threading.Thread(target=context.run, args=(read, 'thread running in a copy of '
                                                                'the activity\'s context'))]
    for thread in threads:
        thread.start()
    for thread in threads:
        thread.join()
    with concurrent.futures.ThreadPoolExecutor(1) as pool:
        pool.submit(read, 'pool thread').result()
        pool.submit(contextvars.copy_context().run, read,
                    'pool thread running in a copied context').result()
    return results


def run_history(case, rng):
    violations = []
    stats = {'histories': 1, 'runs_in_histories': 0, 'nested_runs': 0, 'failing_runs': 0,
             'leaking_runs': 0, 'till_runs': 0, 'activations': 0}
    kinds = [rng.choice(['ok', 'ok', 'fail', 'leak', 'till', 'nested', 'nested-fail'])
             for _ in range(rng.randint(1, 8))]

    def vio(mechanism, msg):
        violations.append({'mechanism': 'c15:' + mechanism, 'msg': msg,
                           'case': dict(case, kinds=kinds)})

    if not now_raises():
        vio('time-visible-outside-run', 'time.now readable before the first run')
    for position, kind in enumerate(kinds):
        stats['runs_in_histories'] += 1
        start = rng.choice([0, 0, 5, -2, 0.5])
        step = 0.5
        if rng.random() < 0.08:
            # an exact integer clock beyond float precision (nanosecond time stamps); whole delays
            start = rng.choice([2 ** 53 + 1, 2 ** 60 + 3, 1700000000 * 10 ** 9 + 1])
            step = 1
        n_roots = rng.randint(1, 4)
        log = []
        raised = []
        nested_log = []
        # threads started *by an activity* (plain, with a copy of the activity's contextvars
        # context as asyncio.to_thread does, from a pool) are foreign threads as well
        foreign = rng.random() < 0.4
        foreign_reads = []

        deep = rng.random() < 0.4
        falsy = rng.random() < 0.4

        inner_failure = rng.choice([Boom, Boom, ExitBoom, KeyboardBoom])
        leaked_value = rng.choice(['leaked-value', 0, '', False, (None,), [], AlwaysEqual()])

        def root(number, kind=kind, log=log, raised=raised, n_roots=n_roots,
                 nested_log=nested_log, deep=deep, falsy=falsy, step=step,
                 inner_failure=inner_failure, leaked_value=leaked_value):
            async def body():
                log.append(('begin', number, time.now))
                if number == 0 and foreign:
                    foreign_reads.extend(read_from_foreign_threads())
                await (time + number * step)
                if kind in ('nested', 'nested-fail') and number == 0:
                    before = time.now
                    inner_log = []

                    async def innermost():
                        await (time + 2)

                    async def inner():
                        inner_log.append(time.now)
                        if deep:
                            # a third level: a run nested in the nested run
                            await (time + 3)
                            usim.run(innermost(), start=-50)
                            stats['nested_runs'] += 1
                            await (time + 4)
                        else:
                            await (time + 7)
                        inner_log.append(time.now)
                        if kind == 'nested-fail':
                            raise inner_failure('inner')
                    try:
                        usim.run(inner(), start=100)
                    except (Boom, ExitBoom, KeyboardBoom):
                        nested_log.append('inner-failed')
                    nested_log.append(tuple(inner_log))
                    try:
                        after = time.now
                    except RuntimeError:
                        after = 'RuntimeError'
                    nested_log.append((before, after))
                    stats['nested_runs'] += 1
                await (time + 1)
                log.append(('mid', number, time.now))
                if kind == 'fail' and number == n_roots - 1:
                    exc = (EmptyBoom if falsy else AsyncDone if number % 2 else Boom)(number)
                    raised.append(exc)
                    raise exc
                await (time + 1)
                log.append(('end', number, time.now))
                if kind == 'leak' and number == 0:
                    # (anything but the object None is a value nobody received)
                    return leaked_value
            coro = body()
            coro.__name__ = coro.__qualname__ = 'root%d' % number
            return coro
        sess = Session()
        roots = [root(number) for number in range(n_roots)]
        if kind == 'fail' and rng.random() < 0.5:
            # a bystander that is still queued when the run fails and whose clean-up raises
            # while it is torn down: must not replace the root's exception
            async def bystander():
                try:
                    await (time + 50)
                finally:
                    raise Boom('bystander clean-up')
            extra = bystander()
            extra.__name__ = extra.__qualname__ = 'bystander'
            roots.append(extra)
        sleeper_form = None
        sleeper_log = []
        if kind in ('ok', 'nested', 'leak') and rng.random() < 0.3:
            # somebody who can still make progress when everybody else is done: the clock has to
            # go all the way to infinity before the run may return
            sleeper_form = rng.choice(['delay', 'date', 'child-after', 'interval', 'until'])

            async def sleeper(form=sleeper_form, sleeper_log=sleeper_log):
                infinity = float('inf')
                try:
                    if form == 'delay':
                        await (time + infinity)
                    elif form == 'date':
                        await (time >= infinity)
                    elif form == 'child-after':
                        async def late():
                            sleeper_log.append(('child', time.now))
                        async with usim.Scope() as scope:
                            scope.do(late(), after=infinity)
                    elif form == 'interval':
                        async for _ in usim.delay(infinity):
                            break
                    else:
                        async with usim.until(time + infinity):
                            await usim.eternity
                    sleeper_log.append(('resumed', time.now))
                finally:
                    try:
                        sleeper_log.append(('left', time.now))
                    except RuntimeError:
                        sleeper_log.append(('left', 'outside of the run'))
            extra = sleeper()
            extra.__name__ = extra.__qualname__ = 'sleeper'
            roots.append(extra)
            stats['infinite_sleepers'] = stats.get('infinite_sleepers', 0) + 1
        till = None
        if kind == 'till':
            till = start + rng.choice([0, 0.5, 1, 1.5, 10] if step != 1 else [0, 1, 2, 10])
            stats['till_runs'] += 1
        outcome = sess.run(*roots, start=start, till=till)
        for coro in roots:
            try:
                coro.close()
            except Boom:
                pass        # the bystander's clean-up, now outside of any run
        stats['activations'] += sess.n
        for v in sess.violations:
            if v['mechanism'].startswith('kernel-'):
                vio(v['mechanism'], v['msg'])
        if not now_raises():
            vio('time-visible-outside-run', 'time.now readable after run #%d (%s)' % (
                position, kind))
        stats['foreign_thread_reads'] = stats.get('foreign_thread_reads', 0) + len(foreign_reads)
        for how, value in foreign_reads:
            if value != 'RuntimeError':
                vio('simulation-visible-to-foreign-thread',
                    'a %s started by an activity of run #%d read time.now = %r' % (
                        how, position, value))
        begins = [entry for entry in log if entry[0] == 'begin']
        if [entry[1] for entry in begins] != list(range(n_roots)) and till is None:
            vio('roots-not-in-argument-order', 'roots began in order %s' % (
                [entry[1] for entry in begins],))
        if any(entry[2] != start for entry in begins):
            vio('roots-not-started-at-start', 'roots began at %s, start=%r' % (
                [entry[2] for entry in begins], start))
        if sleeper_form is not None and kind != 'leak' and outcome[0] == 'ok':
            # (a run that fails because of a leaked value tears the sleeper down afterwards)
            infinity = float('inf')
            if ('resumed', infinity) not in sleeper_log or sleeper_log[-1] != ('left', infinity):
                vio('returned-before-quiescence',
                    'an activity waiting for an infinite span of time (%s) could still make '
                    'progress when run #%d returned: it logged %s' % (
                        sleeper_form, position, sleeper_log))
        if kind == 'fail':
            stats['failing_runs'] += 1
            if outcome[0] != 'exc' or outcome[1] is not raised[0]:
                vio('exception-not-reraised-unchanged',
                    'root raised %r, run() ended with %r' % (raised, outcome))
        elif kind == 'leak':
            stats['leaking_runs'] += 1
            if outcome[0] != 'exc' or not isinstance(outcome[1], ActivityLeak):
                vio('returned-value-not-reported',
                    'a root returned a value, run() ended with %r' % (outcome,))
        elif outcome[0] != 'ok':
            vio('run-failed', 'run #%d (%s) ended with %r' % (position, kind, outcome[1]))
        if kind in ('ok', 'nested', 'nested-fail') and outcome[0] == 'ok':
            want = []
            for number in range(n_roots):
                want += [('begin', number, start), ('mid', number, start + number * step + 1),
                         ('end', number, start + number * step + 2)]
            if sorted(log) != sorted(want):
                vio('enclosing-simulation-disturbed' if kind != 'ok' else 'wrong-trace',
                    'log %s, expected %s' % (sorted(log), sorted(want)))
            if sess.stats.get('left_unrun'):
                vio('returned-before-quiescence', 'unrevoked activations left')
        if kind in ('nested', 'nested-fail') and outcome[0] == 'ok':
            inner_times = [item for item in nested_log if isinstance(item, tuple)
                           and len(item) == 2 and item[0] == 100]
            if (100, 107) not in nested_log:
                vio('nested-run-wrong-clock', 'nested run saw times %s' % (nested_log,))
            pair = [item for item in nested_log if isinstance(item, tuple) and len(item) == 2
                    and item != (100, 107)]
            if not pair or pair[0][0] != pair[0][1]:
                vio('enclosing-clock-after-nested-run',
                    'time.now before/after the nested run: %s' % (pair,))
            if kind == 'nested-fail' and 'inner-failed' not in nested_log:
                vio('nested-failure-lost', 'nested failing run did not raise')
        if kind == 'till' and outcome[0] == 'ok':
            late = [entry for entry in log if entry[2] > till]
            if late:
                vio('executed-after-till', 'events %s after till=%r' % (late, till))
    digest = hashlib.sha1(repr(kinds).encode()).hexdigest()
    return {'evals': len(kinds), 'sigs': [digest] if len(kinds) >= 2 else [], 'stats': stats,
            'violations': violations,
            'sample': {'history': kinds} if case['index'] < 16 else None}


def digest_of(program):
    sess = Session()
    env, outcome = execute(program, sess, lifecycle=False)
    lines = [normalise(ev) for ev in sess.events] + ['outcome:%s' % env.outcome]
    begun = sum(1 for ev in sess.events if ev[2] == 'begin')
    ended = sum(1 for ev in sess.events if ev[2] in ('finish', 'fail'))
    return hashlib.sha1('\n'.join(lines).encode()).hexdigest(), sess, env.outcome == 'ok' and \
        begun == ended


_monitoring_on = False


def yield_injection(enable):
    """thorough tier: LINE events inside usim/_core force GIL hand-overs in kernel code"""
    global _monitoring_on
    import time as wall
    mon = getattr(sys, 'monitoring', None)
    if mon is None:
        return False
    tool = mon.DEBUGGER_ID
    if enable and not _monitoring_on:
        try:
            mon.use_tool_id(tool, 'usimmon-c15')
        except ValueError:
            return False
        counter = [0]

        def line(code, lineno):
            if '_core' not in code.co_filename:
                return mon.DISABLE
            counter[0] += 1
            if counter[0] % 3 == 0:
                wall.sleep(0)
        mon.register_callback(tool, mon.events.LINE, line)
        mon.set_events(tool, mon.events.LINE)
        _monitoring_on = True
    elif not enable and _monitoring_on:
        mon.set_events(tool, 0)
        mon.register_callback(tool, mon.events.LINE, None)
        mon.free_tool_id(tool)
        _monitoring_on = False
    return True


def run_threads(case, rng):
    violations = []
    stats = {'thread_batches': 1, 'thread_switches_observed': 0, 'prober_reads': 0,
             'programs_in_threads': 0, 'activations': 0, 'threads': 0, 'yield_injection': 0}

    def vio(mechanism, msg):
        violations.append({'mechanism': 'c15:' + mechanism, 'msg': msg, 'case': dict(case)})

    n_threads = rng.choice([2, 3, 4, 8, 16])
    per_thread = rng.randint(10, 25) if case['tier'] == 'quick' else rng.randint(20, 60)
    base = case['index'] * 1000
    pool = []
    index = 0
    while len(pool) < min(n_threads * 3, 24) and index < 200:
        program = build_program(case['seed'], base + index)
        index += 1
        digest, sess, clean = digest_of(program)
        if clean:
            pool.append((program, digest))
    if len(pool) < 2:
        return {'evals': 1, 'sigs': [], 'stats': stats, 'violations': violations}
    assignments = [[rng.randrange(len(pool)) for _ in range(per_thread)]
                   for _ in range(n_threads)]
    results = [[] for _ in range(n_threads)]
    errors = []
    stop = threading.Event()
    prober_hits = []
    reads = [0]

    def prober():
        while not stop.is_set():
            reads[0] += 1
            try:
                value = time.now
            except RuntimeError:
                continue
            prober_hits.append(value)

    def worker(number):
        try:
            for which in assignments[number]:
                program, _ = pool[which]
                sess = Session()
                env, outcome = execute(program, sess, lifecycle=False)
                lines = [normalise(ev) for ev in sess.events] + ['outcome:%s' % env.outcome]
                results[number].append((which, hashlib.sha1('\n'.join(lines).encode()).hexdigest(),
                                        sess.thread_switches, sess.n,
                                        [v for v in sess.violations
                                         if v['mechanism'].startswith('kernel-')]))
                if not now_raises():
                    errors.append('time.now readable in thread %d between runs' % number)
        except BaseException as exc:  # noqa: B902
            errors.append('thread %d crashed: %r' % (number, exc))

    old_interval = sys.getswitchinterval()
    sys.setswitchinterval(1e-6)
    injected = case['tier'] == 'thorough' and case['index'] % 2 == 0 and yield_injection(True)
    stats['yield_injection'] = int(bool(injected))
    # (half of the batches: all threads carry one and the same name - names identify nothing)
    names = {'name': 'worker'} if case['index'] % 2 else {}
    threads = [threading.Thread(target=worker, args=(number,), **names)
               for number in range(n_threads)]
    probe_thread = threading.Thread(target=prober, **names)
    try:
        probe_thread.start()
        for thread in threads:
            thread.start()
        for thread in threads:
            thread.join(600)
    finally:
        stop.set()
        probe_thread.join(10)
        sys.setswitchinterval(old_interval)
        if injected:
            yield_injection(False)
    stats['threads'] = n_threads
    stats['prober_reads'] = reads[0]
    if any(thread.is_alive() for thread in threads):
        vio('thread-hung', 'a simulation thread did not finish')
    for error in errors:
        vio('thread-error', error)
    if prober_hits:
        vio('simulation-visible-in-foreign-thread',
            'a thread that runs no simulation read time.now = %r' % prober_hits[:3])
    sigs = []
    for number, runs in enumerate(results):
        for which, digest, switches, n, kernel in runs:
            stats['programs_in_threads'] += 1
            stats['thread_switches_observed'] += switches
            stats['activations'] += n
            for v in kernel:
                vio(v['mechanism'], '%s (thread %d)' % (v['msg'], number))
            if digest != pool[which][1]:
                vio('thread-influenced-trace',
                    'program %d run in thread %d of %d gives a different event log than when '
                    'run alone' % (base + which, number, n_threads))
            elif switches:
                sigs.append('%s/%d' % (digest, number))
    return {'evals': stats['programs_in_threads'] + len(pool), 'sigs': sigs, 'stats': stats,
            'violations': violations,
            'sample': {'threads': n_threads, 'per_thread': per_thread,
                       'switches': stats['thread_switches_observed']}
            if case['index'] < 30 else None}


def run_case(case):
    rng = random.Random('%s/%s/c15' % (case['seed'], case['index']))
    if case['family'] == 'threads':
        return run_threads(case, rng)
    return run_history(case, rng)
