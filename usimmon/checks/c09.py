"""C09 - Lock: mutual exclusion, re-entrancy, FIFO hand-off, always released"""
import random

from .. import bootstrap  # noqa: F401
from .. import inject

import usim
from usim import Lock, time, instant, until

PROPERTY = 'C09'
LEVEL = 'fault_enumeration'
RULE = (
    '2-7 contenders of one lock (plus a second lock in some scenarios) with arrival offsets and '
    'hold times from a colliding grid (same-turn arrivals, zero holds, immediate re-requests), '
    'nesting depth 1-3 (inner levels also inside an async generator that the owner closes while keeping the outer level); in half of the scenarios the Lock objects have already served an earlier, complete run(); each scenario is executed un-injected and then with cancel / '
    'until-interrupt / forceful close injected at activation boundaries of any contender '
    '(quick: sampled; thorough: every boundary x every contender x 3 kinds + double faults). '
    'Oracle: sequential lock specification checked over the event log (request, enter, leave, '
    'withdrawn) - mutual exclusion, re-entrancy, FIFO grants among unwithdrawn requesters; '
    '`available` evaluated at every activation boundary for the activity about to run against '
    'the shadow state, and at quiescence (lost lock). non-trivial = injected signal landed, or '
    'the un-injected reference; distinct = activation trace'
)
RULE = RULE + (' Further: contenders with a time-out around their attempt that ask again at once, locks that served earlier simulations, clocks that absorb every delay or start below zero.')

LEVEL_TEXT = (
    'Fault enumeration by runtime monitoring: the real Lock is driven by generated contenders '
    'while signals are injected at every activation boundary (thorough), including the window '
    'between "designated as next owner" and "resumed"; an offline checker validates the event '
    'log against a sequential lock specification and a boundary monitor compares `available` '
    'with the shadow state on every activation.')
TECHNIQUE = 'runtime monitoring: sequential-specification check of the event log + `available` monitor at every activation boundary, signal injection at boundaries'
ASSUMPTIONS = ['signals are injected through public API calls made at activation boundaries']
REQUIRED_STATS = ['enters', 'available_checks', 'signals_landed', 'struck:cancel',
                  'struck:interrupt', 'struck:close']

GRID = [0, 0, 0, 0.5, 0.5, 1, 1, 2]


def n_cases(tier):
    return 400 if tier == 'quick' else 1500


def make_case(seed, index, tier):
    rng = random.Random('%s/%s/c09' % (seed, index))
    contenders = []
    for number in range(rng.randint(2, 7)):
        rounds = []
        for _ in range(rng.randint(1, 3)):
            rounds.append({'offset': rng.choice(GRID), 'hold': rng.choice(GRID),
                           'depth': rng.choice([1, 1, 1, 2, 3]),
                           'inner_wait': rng.choice([0, 0, 0.5]),
                           'lock': 0 if rng.random() < 0.8 else 1,
                           # the inner re-entrant level lives in an async generator that the
                           # owner closes again: that level is left by GeneratorExit while the
                           # activity itself goes on holding the outer level
                           'via_generator': rng.random() < 0.3,
                           # the block is left by an exception that the contender handles itself
                           'leave_by': rng.choice([None, None, None, None, 'err', 'exit', 'kbd']),
                           # a time-out around the whole attempt (waiting and holding); when it
                           # strikes the contender asks again at once - in the activation in
                           # which it gave up, possibly the one in which it was handed the lock
                           'patience': rng.choice([None, None, None, 0.5, 1, 1.5, 2]),
                           'retries': rng.randint(1, 3)})
        contenders.append({'name': 'p%d' % number, 'rounds': rounds})
    # the locks may have served an earlier simulation (e.g. module-level locks)
    return {'seed': seed, 'index': index, 'tier': tier, 'scenario': contenders,
            'reused': rng.random() < 0.5,
            # a clock that absorbs every delay of the scenario (one date, many batches)
            'start': rng.choice([1.7e18, 2.0 ** 70, -1.5, -1, -0.5]) if rng.random() < 0.09 else 0}


class Leave(Exception):
    pass


class LeaveExit(SystemExit):
    pass


class LeaveKbd(KeyboardInterrupt):
    pass


class LockChecker:
    """shadow state of the locks, updated in the same turn as the real operations"""

    def __init__(self, arena, locks):
        self.arena = arena
        self.sess = arena.sess
        self.locks = locks
        self.holder = [None] * len(locks)
        self.depth = [0] * len(locks)
        self.pending = [[] for _ in locks]
        self.runners = {}      # participant name -> the coroutine the loop activates for it
        self.stats = {'enters': 0, 'available_checks': 0, 'withdrawn': 0, 'reentries': 0,
                      'contended_grants': 0}
        self.sess.boundary_hooks.append(self.boundary)
        self.sess.quiescence_hooks.append(self.quiescence)

    def violation(self, mechanism, msg):
        self.sess.violation('c09:' + mechanism, msg)

    def request(self, who, index):
        if self.holder[index] != who:
            self.pending[index].append(who)
        self.arena.log(who, 'request', index)

    def enter(self, who, index):
        self.arena.log(who, 'enter', index)
        self.stats['enters'] += 1
        if self.holder[index] == who:
            self.depth[index] += 1
            self.stats['reentries'] += 1
            return
        if self.holder[index] is not None:
            self.violation('mutual-exclusion', '%s entered lock %d while %s is inside' % (
                who, index, self.holder[index]))
        pending = self.pending[index]
        if not pending or pending[0] != who:
            self.violation('fifo', '%s was granted lock %d but the requesters in order are %s' % (
                who, index, pending))
        if len(pending) > 1:
            self.stats['contended_grants'] += 1
        if who in pending:
            pending.remove(who)
        self.holder[index] = who
        self.depth[index] = 1

    def leave(self, who, index):
        self.arena.log(who, 'leave', index)
        if self.holder[index] != who:
            self.violation('leave-without-hold', '%s leaves lock %d held by %s' % (
                who, index, self.holder[index]))
            return
        self.depth[index] -= 1
        if self.depth[index] == 0:
            self.holder[index] = None

    def withdrawn(self, who, index):
        self.arena.log(who, 'withdrawn', index)
        self.stats['withdrawn'] += 1
        if who in self.pending[index]:
            self.pending[index].remove(who)

    def expected_available(self, who, index):
        holder = self.holder[index]
        if holder is not None:
            return holder == who
        pending = self.pending[index]
        return not pending or pending[0] == who

    def boundary(self, sess, loop, target, signal):
        label = sess.label_of(target)
        if label not in self.runners:
            if label.startswith('p') and label[1:].isdigit():
                self.runners[label] = target
            else:
                return
        for index, lock in enumerate(self.locks):
            self.stats['available_checks'] += 1
            got = lock.available
            want = self.expected_available(label, index)
            if got != want:
                self.violation(
                    'available', 'lock %d: available is %s for %s at %r, expected %s (holder %s, '
                    'requesters %s)' % (index, got, label, loop.time, want, self.holder[index],
                                        self.pending[index]))

    def quiescence(self, sess, loop):
        for index, lock in enumerate(self.locks):
            if self.holder[index] is None and not self.pending[index]:
                if not lock.available:
                    self.violation('lost-lock', 'nobody holds or waits for lock %d at quiescence '
                                                'but it is not available' % index)


def earlier_simulation(locks):
    """a complete, separate run() in which the same Lock objects are contended and released"""
    async def user(lock, hold):
        async with lock:
            await (time + hold)

    async def main():
        async with usim.Scope() as scope:
            for lock in locks:
                scope.do(user(lock, 1))
                scope.do(user(lock, 0.5))
                # a holder and a waiter that are forcefully closed when that simulation ends
                scope.do(user(lock, 1000), volatile=True)
                scope.do(user(lock, 1000), volatile=True)
            await (time + 3)
    usim.run(main())


def build_for(case):
    def build(arena):
        arena.start = case.get('start', 0)
        locks = [inject.made(case, Lock), inject.made(case, Lock)]
        if case.get('reused'):
            earlier_simulation(locks)
        checker = LockChecker(arena, locks)

        def contender(spec):
            name = spec['name']

            async def inner_level(index):
                lock = locks[index]
                checker.request(name, index)
                async with lock:
                    checker.enter(name, index)
                    try:
                        yield
                    finally:
                        checker.leave(name, index)

            async def acquire(index, depth, hold, inner_wait, via_generator=False,
                              leave_by=None):
                lock = locks[index]
                checker.request(name, index)
                entered = False
                try:
                    async with lock:
                        entered = True
                        checker.enter(name, index)
                        try:
                            if depth > 1 and via_generator:
                                level = inner_level(index)
                                await level.__anext__()
                                await level.aclose()
                                del level
                                checker.stats['levels_left_by_generatorexit'] = \
                                    checker.stats.get('levels_left_by_generatorexit', 0) + 1
                                if hold:
                                    await (time + hold)
                                else:
                                    await instant
                            elif depth > 1:
                                await acquire(index, depth - 1, hold, inner_wait,
                                              leave_by=leave_by)
                            else:
                                if hold:
                                    await (time + hold)
                                else:
                                    await instant
                                if inner_wait:
                                    await (time + inner_wait)
                                if leave_by is not None:
                                    raise {'err': Leave, 'exit': LeaveExit,
                                           'kbd': LeaveKbd}[leave_by]()
                        finally:
                            checker.leave(name, index)
                except BaseException:
                    if not entered:
                        checker.withdrawn(name, index)
                    raise

            async def run():
                for round_ in spec['rounds']:
                    if round_['offset']:
                        await (time + round_['offset'])
                    retries = round_.get('retries', 0) if round_.get('patience') else 0
                    while True:
                        try:
                            if retries > 0:
                                retries -= 1
                                completed = False
                                async with until(time + round_['patience']):
                                    await acquire(round_['lock'], round_['depth'], round_['hold'],
                                                  round_['inner_wait'],
                                                  round_.get('via_generator', False),
                                                  round_.get('leave_by'))
                                    completed = True
                                if not completed:
                                    checker.stats['timed_out_and_asked_again'] = checker.stats.get(
                                        'timed_out_and_asked_again', 0) + 1
                                    continue
                            else:
                                await acquire(round_['lock'], round_['depth'], round_['hold'],
                                              round_['inner_wait'],
                                              round_.get('via_generator', False),
                                              round_.get('leave_by'))
                        except (Leave, LeaveExit, LeaveKbd):
                            checker.stats['left_by_exception'] = checker.stats.get(
                                'left_by_exception', 0) + 1
                        break
            return run
        participants = [(spec['name'], contender(spec)) for spec in case['scenario']]
        return participants, (), checker
    return build


def check(sess, arena, checker, outcome, plan):
    found = inject.kernel_violations(sess, outcome)
    found += [dict(v) for v in sess.violations if v['mechanism'].startswith('c09:')]
    return found


def run_case(case):
    rng = random.Random('%s/%s/c09-inj' % (case['seed'], case['index']))
    return inject.explore(case, build_for(case), rng, check, case['tier'],
                          quick_samples=12, max_plans=400)
