"""Boundary injection for the primitives' checks (C09-C13): every participant can be struck by
cancel / until-interrupt / forceful close at any activation boundary.

Layout of one execution (all public API):

    async with Scope() as helper:                 # lives as long as anything else
        async with Scope() as outer:
            outer.do(holder(p)) for every participant p
    holder(p):   async with Scope() as s: task = s.do(wrapped(p))      (catches Concurrent)
    wrapped(p):  async with until(flag_p): await p()

    cancel     -> task.cancel()
    interrupt  -> helper.do(set flag_p)           until(flag_p) fires inside the victim
    close      -> s.do(<coroutine that raises>)   s aborts and closes the victim (GeneratorExit)
"""
import os

from . import bootstrap  # noqa: F401
from .probe import Session

from usim import Scope, Flag, until, Concurrent
from usim._core.loop import Interrupt

KINDS = ('cancel', 'interrupt', 'close')


def made(case, factory):
    """the object under test: made by its constructor - or, for every fifth case, a deep copy
    of an idle template object, the way a model that is cloned per replication / per node gets
    its primitives (`copy.deepcopy(node_template)`); clones are objects of their own"""
    if case.get('index', 0) % 5 != 2:
        return factory()
    import copy
    template = factory()
    first, second = copy.deepcopy(template), copy.deepcopy(template)
    del first
    return second


class Strike(Exception):
    """raised by the striker to abort a victim's holder scope"""


def landing_site(exc):
    """where inside usim a delivered signal surfaced: the innermost usim frames of its traceback"""
    frames = []
    tb = exc.__traceback__
    while tb is not None:
        filename = tb.tb_frame.f_code.co_filename
        if os.sep + 'usim' + os.sep in filename:
            base = os.path.basename(filename)
            if not (base == 'loop.py' and tb.tb_frame.f_code.co_name == '__await__'):
                frames.append('%s:%d' % (base, tb.tb_lineno))
        tb = tb.tb_next
    return '>'.join(frames[-3:]) if frames else 'outside-usim'


class Arena:
    def __init__(self, sess):
        self.sess = sess
        self.victims = {}
        self.custom_interrupt = {}
        self.helper = None
        self.struck = []
        self.pending_exits = []
        #: participants whose clean-up takes virtual time (scenarios declare them)
        self.slow_leavers = set()
        #: scenarios may know why a struck participant legitimately survived: f(kind, name, when)
        self.excuse = None

    def log(self, *event):
        sess = self.sess
        if sess.armed and sess.stack:
            sess.events.append((sess.stack[-1].loop.time,) + event)

    async def main(self, participants, background=()):
        """participants: [(name, coroutine function)], background: plain coroutines"""
        async with Scope() as helper:
            self.helper = helper
            async with Scope() as outer:
                for coro in background:
                    outer.do(coro)
                for name, factory in participants:
                    holder = self._holder(name, factory)
                    holder.__name__ = holder.__qualname__ = 'holder-' + name
                    outer.do(holder)

    async def _holder(self, name, factory):
        flag = Flag()
        try:
            async with Scope() as scope:
                wrapped = self._wrapped(name, factory, flag)
                wrapped.__name__ = wrapped.__qualname__ = name
                task = scope.do(wrapped)
                self.victims[name] = (task, scope, flag)
        except Concurrent as exc:
            if not all(isinstance(child, Strike) for child in exc.children):
                raise

    async def _wrapped(self, name, factory, flag):
        async with until(flag):
            try:
                await factory()
            except BaseException as exc:  # noqa: B902
                if isinstance(exc, (Interrupt, GeneratorExit)) and self.sess.armed:
                    self.sess.landing[landing_site(exc)] += 1
                    self.sess.stats['signals_landed'] += 1
                raise

    # -- striking (called from a boundary action, i.e. synchronously) --------------------
    def strike(self, kind, name):
        victim = self.victims.get(name)
        sess = self.sess
        if victim is None:
            sess.stats['strike_no_victim'] += 1
            return False
        task, scope, flag = victim
        if task.done:
            sess.stats['strike_victim_done'] += 1
            return False
        try:
            if kind == 'cancel':
                task.cancel('struck')
            elif kind == 'interrupt':
                custom = self.custom_interrupt.get(name)
                if custom is not None:
                    custom()        # the participant has its own way of being interrupted
                else:
                    self.helper.do(self._set(flag))
            elif kind == 'close':
                scope.do(self._raise())
            else:
                raise ValueError(kind)
        except Exception as exc:  # noqa: B902 - ScopeClosed: too late to strike
            if type(exc).__name__ != 'ScopeClosed':
                raise
            sess.stats['strike_too_late'] += 1
            return False
        self.struck.append((sess.n, kind, name, sess.now()))
        if not (kind == 'interrupt' and self.custom_interrupt.get(name) is not None):
            # (an interrupt of the participant's own kind - `process.interrupt()` - is an
            # exception that the participant may handle and survive)
            self.pending_exits.append((kind, name, task, sess.now()))
        sess.stats['struck:' + kind] += 1
        return True

    def step_end(self, sess, loop, prev_time):
        """Whoever was struck in the time step that is over must be gone: a cancellation is raised
        at the victim's suspension point in the same time step (C06), the body of an until block is
        abandoned within the time step of its notification (C07), a closed task is done when the
        block that closed it is left (C04) - whatever the victim was suspended in, and whatever
        else happened to that primitive in the same time step."""
        if not self.pending_exits or loop is not sess.main_loop:
            return
        remaining = []
        for kind, name, task, when in self.pending_exits:
            if when != prev_time:
                remaining.append((kind, name, task, when))
                continue
            sess.stats['struck_exits_checked'] += 1
            if not task.done and name not in self.slow_leavers \
                    and not (self.excuse is not None and self.excuse(kind, name, when)):
                sess.violation(
                    'arena-struck-but-goes-on:' + kind,
                    '%s was struck (%s) at time %r and is still not done when that time step is '
                    'over' % (name, kind, when))
        self.pending_exits = remaining

    @staticmethod
    async def _set(flag):
        await flag.set()

    @staticmethod
    async def _raise():
        raise Strike()


def injections(total, names, tier, rng, quick_samples=10, doubles=6):
    """the (boundary, kind, victim) plans to explore for a scenario with ``total`` boundaries"""
    plans = []
    if tier == 'thorough':
        for name in names:
            for kind in KINDS:
                for n in range(1, total + 2):
                    plans.append([(n, kind, name)])
        for _ in range(doubles * 3):
            plans.append([(rng.randint(1, total + 1), rng.choice(KINDS), rng.choice(names)),
                          (rng.randint(1, total + 1), rng.choice(KINDS), rng.choice(names))])
    else:
        for _ in range(quick_samples):
            plans.append([(rng.randint(1, total + 1), rng.choice(KINDS), rng.choice(names))])
        for _ in range(max(1, quick_samples // 5)):
            plans.append([(rng.randint(1, total + 1), rng.choice(KINDS), rng.choice(names)),
                          (rng.randint(1, total + 1), rng.choice(KINDS), rng.choice(names))])
    return plans


def run_arena(build, plan=None, budget=200000):
    """build(arena) -> (participants, background, checker); returns (sess, arena, checker, outcome)"""
    sess = Session(budget_per_step=20000, budget_total=budget)
    arena = Arena(sess)
    sess.step_end_hooks.append(arena.step_end)
    participants, background, checker = build(arena)
    if plan:
        for n, kind, name in plan:
            sess.at_boundary(n, lambda s, kind=kind, name=name: arena.strike(kind, name))
    root = arena.main(participants, background)
    root.__name__ = root.__qualname__ = 'arena'
    # (scenarios may ask for another start time, e.g. a clock so large that it absorbs every
    # delay of the scenario: all of it happens at one date, in many successive batches)
    outcome = sess.run(root, start=getattr(arena, 'start', 0))
    try:
        root.close()
    except BaseException:  # noqa: B902
        pass
    return sess, arena, checker, outcome


def explore(case, build, rng, check, tier, quick_samples=10, max_plans=None, budget=200000):
    """reference run, then injected runs; ``check(sess, arena, checker, outcome, plan)``
    returns the violations of one execution"""
    violations = []
    sigs = []
    stats = {'activations': 0, 'landing_sites': {}, 'struck:cancel': 0, 'struck:interrupt': 0,
             'struck:close': 0, 'signals_landed': 0, 'strike_victim_done': 0,
             'strike_no_victim': 0, 'strike_too_late': 0, 'struck_exits_checked': 0}
    evals = 0
    if case.get('plan') is not None:
        plans = [[tuple(item) for item in case['plan']]]
    else:
        plans = [None]
    first = True
    sample = None
    while plans:
        plan = plans.pop(0)
        sess, arena, checker, outcome = run_arena(build, plan, budget)
        evals += 1
        stats['activations'] += sess.n
        for key in ('struck:cancel', 'struck:interrupt', 'struck:close', 'signals_landed',
                    'strike_victim_done', 'strike_no_victim', 'strike_too_late',
                    'struck_exits_checked'):
            stats[key] += sess.stats.get(key, 0)
        for site, count in sess.landing.items():
            stats['landing_sites'][site] = stats['landing_sites'].get(site, 0) + count
        found = list(check(sess, arena, checker, outcome, plan))
        for key, value in getattr(checker, 'stats', {}).items():
            stats[key] = stats.get(key, 0) + value
        for vio in found:
            vio = dict(vio)
            vio['case'] = dict(case, plan=plan)
            violations.append(vio)
        if plan is None or sess.stats.get('signals_landed'):
            sigs.append(sess.signature())
        if first:
            first = False
            if case.get('plan') is None:
                names = sorted(arena.victims)
                if names and sess.n:
                    plans = injections(sess.n, names, tier, rng, quick_samples)
                    if max_plans is not None and len(plans) > max_plans:
                        plans = rng.sample(plans, max_plans)
            if case.get('index', 99) < 16:
                sample = {'scenario': case.get('scenario'), 'boundaries': sess.n,
                          'events': [list(map(str, ev)) for ev in sess.events[:40]]}
    return {'evals': evals, 'sigs': sigs, 'stats': stats, 'violations': violations,
            'sample': sample}


def kernel_violations(sess, outcome, extra_ok=()):
    """what every arena execution must satisfy: kernel monitors silent, run() ends normally"""
    found = [dict(v) for v in sess.violations
             if v['mechanism'].startswith(('kernel-', 'arena-'))]
    kind, exc = outcome
    if kind == 'exc':
        def leaf_types(err):
            children = getattr(err, 'children', None)
            if children:
                for child in children:
                    yield from leaf_types(child)
            elif not isinstance(err, Strike):
                yield type(err).__name__
        names = sorted(set(leaf_types(exc))) or [type(exc).__name__]
        found.append({'mechanism': 'run-failed:%s' % '+'.join(names),
                      'msg': 'run() ended with %s: %s' % (type(exc).__name__, str(exc)[:300])})
    elif kind == 'abort':
        found.append({'mechanism': 'run-aborted', 'msg': 'budget exceeded: %s' % exc})
    return found
