"""Scenario language: JSON programs interpreted into real usim coroutines.

A program is ``{'objects': {...}, 'roots': [activity, ...], 'start': t, 'till': T|None}``;
an activity is ``{'name': str, 'steps': [step, ...]}``.  The interpreter only calls the
public usim API, logs every step (start / end / exception) into the session's event
log and classifies every exception that program code can observe (C03).
"""
import os
import random
import weakref

from . import bootstrap  # noqa: F401
from .probe import Session

import usim
from usim import (
    Flag, Tracked, Lock, Queue, Channel, Resources, Capacities, Pipe, UnboundedPipe,
    Scope, until, time, eternity, instant, Concurrent, TaskCancelled, TaskClosed,
    StreamClosed, ResourcesUnavailable, IntervalExceeded, CancelTask,
)
from usim._core.loop import Interrupt
from usim._primitives.context import CancelScope, ScopeClosed

INF = float('inf')


class ProgErr(Exception):
    """An exception raised by generated program code, identified by its tag"""
    def __init__(self, tag):
        super().__init__(tag)
        self.tag = tag


class ProgLookup(LookupError):
    def __init__(self, tag):
        super().__init__(tag)
        self.tag = tag


class ProgKey(KeyError):
    def __init__(self, tag):
        super().__init__(tag)
        self.tag = tag


class ProgIndex(IndexError):
    def __init__(self, tag):
        super().__init__(tag)
        self.tag = tag


class ProgAssert(AssertionError):
    def __init__(self, tag):
        super().__init__(tag)
        self.tag = tag


class ProgExit(SystemExit):
    def __init__(self, tag):
        super().__init__(tag)
        self.tag = tag


class ProgKbd(KeyboardInterrupt):
    def __init__(self, tag):
        super().__init__(tag)
        self.tag = tag


EXC_TYPES = {
    'err': ProgErr, 'lookup': ProgLookup, 'key': ProgKey, 'index': ProgIndex,
    'assert': ProgAssert, 'exit': ProgExit, 'kbd': ProgKbd,
}
PRIVILEGED = (SystemExit, KeyboardInterrupt, AssertionError)
PUBLIC_EXC = (TaskCancelled, TaskClosed, StreamClosed, ResourcesUnavailable,
              IntervalExceeded, ScopeClosed)

CMP = {
    'lt': lambda a, b: a < b, 'le': lambda a, b: a <= b, 'eq': lambda a, b: a == b,
    'ne': lambda a, b: a != b, 'ge': lambda a, b: a >= b, 'gt': lambda a, b: a > b,
}


def exc_name(exc):
    """address-free, configuration-independent description of an exception"""
    if isinstance(exc, Concurrent):
        return 'Concurrent[%s]' % ','.join(exc_name(child) for child in exc.children)
    tag = getattr(exc, 'tag', None)
    base = type(exc).__name__
    if tag is not None:
        return '%s(%s)' % (base, tag)
    if isinstance(exc, TaskCancelled):
        return 'TaskCancelled%r' % (tuple(exc.args),)
    return base


def leaves(exc):
    if isinstance(exc, Concurrent):
        for child in exc.children:
            yield from leaves(child)
    else:
        yield exc


class Ctx:
    __slots__ = ('name', 'task', 'scopes', 'parent_scope', 'held', 'first_agens')

    def __init__(self, name, task=None, parent_scope=None):
        self.name = name
        self.task = task
        self.scopes = []
        self.parent_scope = parent_scope
        self.held = []
        self.first_agens = []   # weak references to first() generators being consumed

    def first_scopes(self):
        """the internal scopes of the first() generators this activity is consuming"""
        found = []
        for ref in self.first_agens:
            agen = ref()
            frame = getattr(agen, 'ag_frame', None)
            if frame is not None:
                scope = frame.f_locals.get('scope')
                if scope is not None:
                    found.append(scope)
        return found


class Env:
    """Run-time environment of one program execution"""

    def __init__(self, program, session=None):
        self.program = program
        self.sess = session if session is not None else Session()
        # every exception raised by program code: id(exc) -> weakref(exc).  Weak, because a
        # strong reference would keep the traceback's frames - and with them suspended async
        # generators (first(), interval(), iteration) - alive, delaying their finalisation.
        self.raised = {}
        self.first_struck = set()
        self.keep = []
        self.tasks = {}           # child name -> Task
        self.ctxs = {}            # activity name -> Ctx
        self.scopes = {}          # scope step id -> Scope object
        self.ended_scopes = set()
        self._junk = []
        self._junk_rng = random.Random(int(os.environ.get('VERIF_JUNK', '0') or 0))
        self.junk_on = bool(int(os.environ.get('VERIF_JUNK', '0') or 0))
        self.objects = {}
        self.nsteps = count_steps(program)
        self.build_objects(program.get('objects', {}))

    # -- objects -----------------------------------------------------------------
    def junk(self):
        if self.junk_on:
            rng = self._junk_rng
            for _ in range(rng.randrange(1, 6)):
                self._junk.append([object() for _ in range(rng.randrange(1, 40))])
                self._junk.append(bytearray(rng.randrange(1, 3000)))

    def build_objects(self, spec):
        obj = self.objects
        self.junk()
        obj['flags'] = []
        for _ in range(spec.get('flags', 0)):
            obj['flags'].append(Flag())
            self.junk()
        obj['tracked'] = []
        for value in spec.get('tracked', []):
            obj['tracked'].append(Tracked(value))
            self.junk()
        obj['locks'] = []
        for _ in range(spec.get('locks', 0)):
            obj['locks'].append(Lock())
            self.junk()
        obj['queues'] = []
        for _ in range(spec.get('queues', 0)):
            obj['queues'].append(Queue())
            self.junk()
        obj['channels'] = []
        for _ in range(spec.get('channels', 0)):
            obj['channels'].append(Channel())
            self.junk()
        obj['resources'] = []
        for res in spec.get('resources', []):
            cls = Capacities if res.get('kind') == 'capacities' else Resources
            obj['resources'].append(cls(**res['levels']))
            self.junk()
        obj['pipes'] = []
        for tp in spec.get('pipes', []):
            obj['pipes'].append(UnboundedPipe() if tp == 'inf' else Pipe(throughput=tp))
            self.junk()

    # -- logging -----------------------------------------------------------------
    def log(self, actor, what, *detail):
        sess = self.sess
        if sess.armed and sess.stack:   # R3: teardown after run() is not behaviour
            sess.events.append((sess.stack[-1].loop.time, actor, what) + detail)

    def new_exc(self, kind, tag):
        exc = EXC_TYPES[kind](tag)
        self.raised[id(exc)] = weakref.ref(exc)
        return exc

    def is_own(self, exc):
        ref = self.raised.get(id(exc))
        return ref is not None and ref() is exc

    # -- C03: what program code may observe at an await ---------------------------
    def observe(self, ctx, step, exc):
        sess = self.sess
        if not (sess.armed and sess.stack):
            return 'teardown'           # R3
        sess.stats['exceptions_observed'] += 1
        if isinstance(exc, GeneratorExit):
            return 'GeneratorExit'
        if self.is_own(exc):
            return exc_name(exc)
        if isinstance(exc, CancelTask):
            if ctx.task is None or exc.subject is not ctx.task:
                sess.violation('foreign-canceltask',
                               '%s observed CancelTask of another task at step %s' % (
                                   ctx.name, step.get('id')))
            return 'CancelTask'
        if isinstance(exc, CancelScope):
            if any(exc.subject is scope for scope in ctx.scopes):
                pass
            elif id(exc.subject) in self.first_struck:
                pass    # already recorded where it struck; now propagating outwards
            elif any(exc.subject is scope for scope in ctx.first_scopes()):
                # D15: a failing activity of first() aborts first()'s internal scope while the
                # consumer is in its own loop body - the abort signal surfaces in consumer code
                self.first_struck.add(id(exc.subject))
                self.keep.append(exc.subject)
                sess.violation('first-internal-cancelscope-hits-consumer',
                               '%s observed the CancelScope of the internal scope of first() '
                               'inside its own loop body at step %s (%s)' % (
                                   ctx.name, step.get('id'), step.get('op')))
            else:
                sess.violation('foreign-cancelscope',
                               '%s observed a CancelScope of a scope that is not an open '
                               'scope of this activity at step %s (%s)' % (
                                   ctx.name, step.get('id'), step.get('op')))
            return 'CancelScope'
        if isinstance(exc, Interrupt):
            sess.violation('leaked-wakeup',
                           '%s observed internal wake-up %s at step %s' % (
                               ctx.name, type(exc).__name__, step.get('id')))
            return 'Interrupt'
        if isinstance(exc, Concurrent):
            for leaf in leaves(exc):
                if isinstance(leaf, CancelScope) and id(leaf.subject) in self.first_struck:
                    continue    # D15 propagating (recorded where it struck)
                if not self.is_own(leaf):
                    sess.violation('concurrent-foreign-content',
                                   '%s: Concurrent carries %r which no program code raised'
                                   % (ctx.name, leaf))
            return exc_name(exc)
        if isinstance(exc, PUBLIC_EXC):
            return exc_name(exc)
        if self.first_struck and isinstance(exc, AssertionError) and 'CancelScope' in str(exc) \
                and 'may only be specialised by Exception subclasses' in str(exc):
            return 'AssertionError'     # D15 propagating: Concurrent(<the leaked CancelScope>)
        sess.violation(
            'internal-error:%s' % type(exc).__name__,
            '%s observed %s: %s at step %s (%s)' % (
                ctx.name, type(exc).__name__, str(exc)[:200], step.get('id'), step.get('op')))
        return type(exc).__name__

    def classify_outcome(self, outcome):
        """C03: how may run() end"""
        kind, exc = outcome
        sess = self.sess
        if kind == 'ok':
            return 'ok'
        if kind == 'abort':
            return 'abort'
        for leaf in leaves(exc):
            if self.is_own(leaf):
                continue
            if isinstance(leaf, PUBLIC_EXC):
                continue
            name = type(leaf).__name__
            text = str(leaf)[:300]
            if isinstance(leaf, CancelScope) and id(leaf.subject) in self.first_struck:
                continue        # D15, recorded where it struck
            elif self.first_struck and isinstance(leaf, AssertionError) and \
                    'CancelScope' in text and 'may only be specialised' in text:
                continue        # D15 propagating: Concurrent(<the leaked CancelScope>)
            elif isinstance(leaf, Interrupt):
                mech = 'run-ended-with-signal:%s' % name
            elif isinstance(leaf, AssertionError):
                mech = 'run-ended-with-internal-assertion'
            elif isinstance(leaf, RuntimeError) and (
                    'cannot reuse already awaited' in text or 'already executing' in text
                    or 'ignored GeneratorExit' in text):
                mech = 'run-ended-with-coroutine-misuse'
            else:
                mech = 'run-ended-with-foreign:%s' % name
            sess.violation(mech, 'run() ended with %s: %s' % (name, text))
        return exc_name(exc)


def count_steps(program):
    def walk(steps):
        total = 0
        for step in steps:
            total += 1
            for key in ('body',):
                if key in step:
                    total += walk(step[key])
            for child in step.get('children', ()):
                total += 1 + walk(child['steps'])
            for act in step.get('acts', ()):
                total += 1 + walk(act['steps'])
            if 'child' in step:
                total += 1 + walk(step['child']['steps'])
        return total
    return sum(1 + walk(root['steps']) for root in program['roots'])


# -- notifications -------------------------------------------------------------------
def make_notif(env, spec):
    kind = spec['k']
    obj = env.objects
    if kind == 'delay':
        return time + spec['d']
    if kind == 'ge':
        return time >= spec['t']
    if kind == 'eq':
        return time == spec['t']
    if kind == 'lt':
        return time < spec['t']
    if kind == 'instant':
        return instant
    if kind == 'eternity':
        return eternity
    if kind == 'flag':
        flag = obj['flags'][spec['f']]
        return ~flag if spec.get('neg') else flag
    if kind == 'tracked':
        left = obj['tracked'][spec['i']]
        right = spec['v']
        if isinstance(right, dict):
            right = obj['tracked'][right['i']]
        return {
            'lt': lambda: left < right, 'le': lambda: left <= right,
            'eq': lambda: left == right, 'ne': lambda: left != right,
            'ge': lambda: left >= right, 'gt': lambda: left > right,
        }[spec['cmp']]()
    if kind == 'levels':
        res = obj['resources'][spec['r']]
        return {
            'lt': lambda: res < spec['v'], 'le': lambda: res <= spec['v'],
            'eq': lambda: res == spec['v'], 'ne': lambda: res != spec['v'],
            'ge': lambda: res >= spec['v'], 'gt': lambda: res > spec['v'],
        }[spec['cmp']]()
    if kind == 'done':
        task = env.tasks.get(spec['task'])
        if task is None:
            return instant if spec.get('neg') else eternity
        return ~task.done if spec.get('neg') else task.done
    if kind == 'and':
        parts = [make_notif(env, sub) for sub in spec['a']]
        result = parts[0]
        for part in parts[1:]:
            result = result & part
        return result
    if kind == 'or':
        parts = [make_notif(env, sub) for sub in spec['a']]
        result = parts[0]
        for part in parts[1:]:
            result = result | part
        return result
    if kind == 'inv':
        return ~make_notif(env, spec['a'])
    raise ValueError('unknown notification %r' % (spec,))


# -- interpreter ---------------------------------------------------------------------
async def run_steps(env, ctx, steps):
    for step in steps:
        await exec_step(env, ctx, step)


async def exec_step(env, ctx, step):
    op = step['op']
    sid = step.get('id')
    env.log(ctx.name, 'start', op, sid)
    env.sess.stats['op:' + op] += 1
    try:
        result = await HANDLERS[op](env, ctx, step)
    except BaseException as exc:  # noqa: B902
        name = env.observe(ctx, step, exc)
        env.log(ctx.name, 'exc', op, sid, name)
        raise
    env.log(ctx.name, 'end', op, sid, result)


def activity(env, spec, ctx=None):
    """create the coroutine of an activity; its (and its task wrapper's) name is the label"""
    if ctx is None:
        ctx = Ctx(spec['name'])
    env.ctxs[spec['name']] = ctx
    coro = _activity(env, ctx, spec)
    coro.__name__ = coro.__qualname__ = spec['name']
    return coro


async def _activity(env, ctx, spec):
    env.log(ctx.name, 'begin')
    try:
        await run_steps(env, ctx, spec['steps'])
    except BaseException as exc:  # noqa: B902
        env.log(ctx.name, 'fail', exc_name(exc) if not isinstance(
            exc, (Interrupt, GeneratorExit)) else type(exc).__name__)
        raise
    env.log(ctx.name, 'finish')
    return spec.get('result')


def spawn(env, ctx, scope, child):
    """scope.do(...) for a child spec; returns the task or None (refused)"""
    name = child['name']
    cctx = Ctx(name, parent_scope=scope)
    coro = activity(env, child, cctx)
    kwargs = {}
    if child.get('volatile'):
        kwargs['volatile'] = True
    if child.get('after') is not None:
        kwargs['after'] = child['after']
    elif child.get('at') is not None:
        if child['at'] < time.now:
            coro.close()
            env.log(ctx.name, 'spawn-skipped', name)
            return None
        kwargs['at'] = child['at']
    env.junk()
    try:
        task = scope.do(coro, **kwargs)
    except ScopeClosed:
        env.log(ctx.name, 'spawn-refused', name)
        env.sess.stats['spawn_refused'] += 1
        return None
    cctx.task = task
    env.tasks[name] = task
    env.log(ctx.name, 'spawn', name)
    return task


async def op_wait(env, ctx, step):
    await make_notif(env, step['n'])


async def op_setflag(env, ctx, step):
    await env.objects['flags'][step['f']].set(step.get('v', True))


async def op_settracked(env, ctx, step):
    tracked = env.objects['tracked'][step['i']]
    if 'add' in step:
        await (tracked + step['add'])
    else:
        await tracked.set(step['v'])
    return tracked.value


async def op_lock(env, ctx, step):
    lock = env.objects['locks'][step['l']]
    async with lock:
        env.log(ctx.name, 'lock-enter', step['l'])
        try:
            await run_steps(env, ctx, step['body'])
        finally:
            env.log(ctx.name, 'lock-leave', step['l'])


async def op_put(env, ctx, step):
    stream = env.objects[step.get('kind', 'queues')][step['q']]
    try:
        await stream.put(step['item'])
    except StreamClosed:
        return 'closed'
    return 'ok'


async def op_get(env, ctx, step):
    stream = env.objects[step.get('kind', 'queues')][step['q']]
    try:
        return await stream
    except StreamClosed:
        return 'closed'


async def op_iter(env, ctx, step):
    stream = env.objects[step.get('kind', 'queues')][step['q']]
    got = []
    count = 0
    limit = step.get('max')
    if limit == 0:
        return got
    # NOTE: the async generator is deliberately *not* bound to a local variable.  On CPython
    # 3.12 closing a coroutine that is suspended in ``agen.__anext__()`` does not reach the
    # generator's frame (asend.close() is a no-op); the generator is only finalised - and its
    # pending wake-up revoked - when its last reference goes away.  A named local survives in
    # the frame object that tracebacks of earlier wake-ups keep alive (see DESIGN, D16).
    async for item in stream:
        got.append(item)
        env.log(ctx.name, 'iter-item', step.get('id'), item)
        if step.get('body'):
            await run_steps(env, ctx, step['body'])
        count += 1
        if limit is not None and count >= limit:
            break
    return got


async def op_close(env, ctx, step):
    stream = env.objects[step.get('kind', 'queues')][step['q']]
    await stream.close()


async def op_borrow(env, ctx, step):
    res = env.objects['resources'][step['r']]
    block = res.claim(**step['amounts']) if step.get('claim') else res.borrow(**step['amounts'])
    try:
        async with block as inner:
            env.log(ctx.name, 'borrow-held', step.get('id'))
            try:
                if step.get('nested'):
                    async with inner.borrow(**step['nested']):
                        await run_steps(env, ctx, step['body'])
                else:
                    await run_steps(env, ctx, step['body'])
            finally:
                env.log(ctx.name, 'borrow-leaving', step.get('id'))
    except ResourcesUnavailable:
        return 'unavailable'
    return 'ok'


async def op_resource(env, ctx, step):
    res = env.objects['resources'][step['r']]
    how = step['how']
    if how == 'increase':
        await res.increase(**step['amounts'])
    elif how == 'decrease':
        current = dict(res.levels)
        if all(current[key] >= value for key, value in step['amounts'].items()):
            await res.decrease(**step['amounts'])
        else:
            return 'skipped'
    else:
        await res.set(**step['amounts'])
    return sorted(dict(res.levels).items())


async def op_transfer(env, ctx, step):
    pipe = env.objects['pipes'][step['p']]
    await pipe.transfer(step['v'], step.get('limit'))


async def op_scope(env, ctx, step):
    if step.get('n') is not None:
        scope = until(make_notif(env, step['n']))
    else:
        scope = Scope()
    sid = step.get('id')
    env.scopes[sid] = scope
    ctx.scopes.append(scope)
    try:
        try:
            async with scope:
                for child in step.get('children', ()):
                    spawn(env, ctx, scope, child)
                await run_steps(env, ctx, step['body'])
                env.log(ctx.name, 'body-done', sid)
        finally:
            ctx.scopes.remove(scope)
            env.ended_scopes.add(sid)
            env.log(ctx.name, 'scope-left', sid)
    except Concurrent as exc:
        if step.get('catch'):
            return exc_name(exc)
        raise


async def op_spawn(env, ctx, step):
    """spawn a sibling into the scope this activity was started in (or a named scope)"""
    scope = env.scopes.get(step['scope']) if step.get('scope') else ctx.parent_scope
    if scope is None:
        return 'noscope'
    task = spawn(env, ctx, scope, step['child'])
    return 'refused' if task is None else 'ok'


async def op_cancel(env, ctx, step):
    task = env.tasks.get(step['task'])
    if task is None:
        return 'notask'
    task.cancel(*step.get('token', ()))
    if step.get('yield', True):
        await instant
    return str(task.status).split('.')[-1]


async def op_await_task(env, ctx, step):
    task = env.tasks.get(step['task'])
    if task is None:
        return 'notask'
    try:
        return await task
    except (TaskCancelled, TaskClosed) as exc:
        return exc_name(exc)
    except BaseException as exc:  # noqa: B902
        if env.is_own(exc) and step.get('catch'):
            return exc_name(exc)
        raise


async def op_raise(env, ctx, step):
    raise env.new_exc(step.get('kind', 'err'), step['tag'])


async def op_ticker(env, ctx, step):
    maker = usim.interval if step['how'] == 'interval' else usim.delay
    count = 0
    limit = step['n']
    try:
        async for now in maker(step['p']):
            env.log(ctx.name, 'tick', step.get('id'), now)
            bodies = step.get('bodies') or [[]]
            await run_steps(env, ctx, bodies[count % len(bodies)])
            count += 1
            if count >= limit:
                break
    except IntervalExceeded:
        return 'exceeded@%d' % count
    return count


async def op_collect(env, ctx, step):
    acts = [activity(env, act) for act in step['acts']]
    try:
        return await usim.collect(*acts)
    except Concurrent as exc:
        if step.get('catch'):
            return exc_name(exc)
        raise
    finally:
        for act in acts:
            act.close()


def _track_first(ctx, agen):
    ctx.first_agens.append(weakref.ref(agen))
    return agen


async def op_first(env, ctx, step):
    acts = [activity(env, act) for act in step['acts']]
    got = []
    try:
        try:
            async for value in _track_first(
                    ctx, usim.first(*acts, count=step.get('count', 1))):
                got.append(value)
                env.log(ctx.name, 'first-item', step.get('id'), value)
                if step.get('body'):
                    await run_steps(env, ctx, step['body'])
                if step.get('brk') is not None and len(got) >= step['brk']:
                    break
        except ValueError:
            return 'ValueError'
        except Concurrent as exc:
            if step.get('catch'):
                return exc_name(exc)
            raise
    finally:
        for act in acts:
            act.close()
    return got


async def op_nop(env, ctx, step):
    return None


HANDLERS = {
    'wait': op_wait, 'setflag': op_setflag, 'settracked': op_settracked, 'lock': op_lock,
    'put': op_put, 'get': op_get, 'iter': op_iter, 'close': op_close,
    'borrow': op_borrow, 'resource': op_resource, 'transfer': op_transfer,
    'scope': op_scope, 'spawn': op_spawn, 'cancel': op_cancel, 'await_task': op_await_task,
    'raise': op_raise, 'ticker': op_ticker, 'collect': op_collect, 'first': op_first,
    'nop': op_nop,
}


def execute(program, session=None, prepare=None):
    """run a program under a (new) session; returns (env, outcome)"""
    sess = session if session is not None else Session()
    env = Env(program, sess)
    sess.budget_per_step = 400 + 60 * env.nsteps
    sess.budget_total = 20000 + 2000 * env.nsteps
    if prepare is not None:
        prepare(env)
    roots = [activity(env, root) for root in program['roots']]
    outcome = sess.run(*roots, start=program.get('start', 0), till=program.get('till'))
    for root in roots:
        try:
            root.close()
        except BaseException:  # noqa: B902 - teardown (R3)
            pass
    env.outcome = env.classify_outcome(outcome)
    return env, outcome
