"""Scenario language: JSON programs interpreted into real usim coroutines.

A program is ``{'objects': {...}, 'roots': [activity, ...], 'start': t, 'till': T|None}``;
an activity is ``{'name': str, 'steps': [step, ...]}``.  The interpreter only calls the
public usim API, logs every step (start / end / exception) into the session's event
log and classifies every exception that program code can observe (C03).
"""
import inspect
import os
import random
import weakref

from . import bootstrap  # noqa: F401
from .probe import Session
from .models.until import decode

import usim
from usim import (
    Flag, Tracked, Lock, Queue, Channel, Resources, Capacities, Pipe, UnboundedPipe,
    Scope, until, time, eternity, instant, Concurrent, TaskCancelled, TaskClosed,
    StreamClosed, ResourcesUnavailable, IntervalExceeded, CancelTask,
)
from usim._core.loop import Interrupt
from usim._primitives.context import CancelScope, ScopeClosed
from usim._primitives.task import Task

INF = float('inf')


class ProgErr(Exception):
    """An exception raised by generated program code, identified by its tag"""
    def __init__(self, tag):
        super().__init__(tag)
        self.tag = tag


class ProgEq(ProgErr):
    """all instances compare equal (like a dataclass exception with equal fields): failures are
    told apart by identity, never by =="""
    def __eq__(self, other):
        return isinstance(other, ProgEq)

    def __hash__(self):
        return 7


class ProgFalsy(ProgErr):
    """an exception that is falsy (like an empty error collection with __len__)"""
    def __bool__(self):
        return False


class ProgStream(StreamClosed):
    """program code raising one of the library's own public exception types (e.g. passing on
    the StreamClosed of a stream of its own): a failure like any other"""
    def __init__(self, tag):
        Exception.__init__(self, tag)
        self.tag = tag


class ProgUnavailable(ResourcesUnavailable):
    def __init__(self, tag):
        Exception.__init__(self, tag)
        self.tag = tag


class ProgInterval(IntervalExceeded):
    def __init__(self, tag):
        Exception.__init__(self, tag)
        self.tag = tag


class ProgLookup(LookupError):
    def __init__(self, tag):
        super().__init__(tag)
        self.tag = tag


class ProgKey(KeyError):
    def __init__(self, tag):
        super().__init__(tag)
        self.tag = tag


class ProgIndex(IndexError):
    def __init__(self, tag):
        super().__init__(tag)
        self.tag = tag


class ProgAssert(AssertionError):
    def __init__(self, tag):
        super().__init__(tag)
        self.tag = tag


class ProgExit(SystemExit):
    def __init__(self, tag):
        super().__init__(tag)
        self.tag = tag


class ProgKbd(KeyboardInterrupt):
    def __init__(self, tag):
        super().__init__(tag)
        self.tag = tag


class ProgAbort(BaseException):
    """not an Exception (like asyncio's CancelledError): scopes wrap it like any failure - but
    `Concurrent` insists on Exception subclasses by an assertion, so only under -O"""
    def __init__(self, tag):
        super().__init__(tag)
        self.tag = tag


def _twin_of_progerr():
    class ProgErr(Exception):       # noqa: F811 - another class of the same name, on purpose
        def __init__(self, tag):
            super().__init__(tag)
            self.tag = tag
    return ProgErr


#: a different exception class that carries the same `__name__` (and `__qualname__` tail) as
#: ProgErr - like csv.Error / shutil.Error / binascii.Error
ProgErrTwin = _twin_of_progerr()


EXC_TYPES = {
    'twin': ProgErrTwin,
    'abort': ProgAbort,
    'err': ProgErr, 'lookup': ProgLookup, 'key': ProgKey, 'index': ProgIndex,
    'assert': ProgAssert, 'exit': ProgExit, 'kbd': ProgKbd, 'eq': ProgEq, 'falsy': ProgFalsy,
    'stream': ProgStream, 'unavailable': ProgUnavailable, 'interval': ProgInterval,
}
PRIVILEGED = (SystemExit, KeyboardInterrupt, AssertionError)
PUBLIC_EXC = (TaskCancelled, TaskClosed, StreamClosed, ResourcesUnavailable,
              IntervalExceeded, ScopeClosed)

CMP = {
    'lt': lambda a, b: a < b, 'le': lambda a, b: a <= b, 'eq': lambda a, b: a == b,
    'ne': lambda a, b: a != b, 'ge': lambda a, b: a >= b, 'gt': lambda a, b: a > b,
}


def exc_name(exc):
    """address-free, configuration-independent description of an exception"""
    if isinstance(exc, Concurrent):
        return 'Concurrent[%s]' % ','.join(exc_name(child) for child in exc.children)
    tag = getattr(exc, 'tag', None)
    base = type(exc).__name__
    if tag is not None:
        return '%s(%s)' % (base, tag)
    if isinstance(exc, TaskCancelled):
        return 'TaskCancelled%r' % (tuple(exc.args),)
    return base


def leaves(exc):
    if isinstance(exc, Concurrent):
        for child in exc.children:
            yield from leaves(child)
    else:
        yield exc


class Ctx:
    __slots__ = ('name', 'task', 'scopes', 'parent_scope', 'held', 'first_agens',
                 'parent_key')

    def __init__(self, name, task=None, parent_scope=None, parent_key=None):
        self.name = name
        self.task = task
        self.scopes = []
        self.parent_scope = parent_scope
        self.parent_key = parent_key
        self.held = []
        self.first_agens = []   # weak references to first() generators being consumed

    def first_scopes(self):
        """the internal scopes of the first() generators this activity is consuming"""
        found = []
        for ref in self.first_agens:
            agen = ref()
            frame = getattr(agen, 'ag_frame', None)
            if frame is not None:
                scope = frame.f_locals.get('scope')
                if scope is not None:
                    found.append(scope)
        return found


class Env:
    """Run-time environment of one program execution"""

    def __init__(self, program, session=None):
        self.program = program
        self.sess = session if session is not None else Session()
        # every exception raised by program code: id(exc) -> weakref(exc).  Weak, because a
        # strong reference would keep the traceback's frames - and with them suspended async
        # generators (first(), interval(), iteration) - alive, delaying their finalisation.
        self.raised = {}
        self.first_struck = set()
        self.keep = []
        self.scope_seq = 0
        self.scope_inst = {}      # scope instance key -> info dict (C04/C05 monitors)
        self.actor_parent = {}    # actor -> ('task', scope key) | ('act', caller actor)
        self.names_used = {}
        self.cancel_calls = {}    # task instance name -> [(time, token, status at call, n)]
        #: CancelTask objects seen by a task's own code in the current time step (kept only
        #: until the step ends: id() of a dead object may be handed out again)
        self.cancel_delivered = {}
        self.start_dates = {}     # task instance name -> date before which none of its code runs
        self.await_results = {}   # task instance name -> [(awaiter, kind, ident)]
        self.returned = {}        # task instance name -> repr of what its payload returned
        self.awaiting = {}        # key -> (awaiter, task instance name, task, since): in `await task`
        self.refused = []         # (coroutine weakref, name) of payloads refused by do()
        self.task_names = {}      # id(task) -> instance name
        self.task_inst = {}       # instance name -> Task
        self.waiting = {}         # actor -> (step, boundary number, notification) while in op_wait
        self.on_wait_end = None
        self.shared = {}          # shared notification objects (spec key 'share')
        objects = program.get('objects', {})
        # shadow valuation of the atoms, maintained from the program's own actions only
        # (valid for resources only while nobody borrows: C08 programs do not)
        self.shadow = {
            'flags': [False] * objects.get('flags', 0),
            'tracked': list(objects.get('tracked', [])),
            'done': {},
            'levels': [dict(res['levels']) for res in objects.get('resources', [])],
        }
        self.tasks = {}           # child name -> Task
        self.ctxs = {}            # activity name -> Ctx
        self.scopes = {}          # scope step id -> Scope object (only for blocks that other
        #                           steps refer to: the harness keeps nothing else alive)
        self.referenced_scopes = referenced_scope_ids(program)
        self.ended_scopes = set()
        self.scope_keys = {}      # id(Scope object) -> key of its block instance
        self._junk = []
        self._junk_rng = random.Random(int(os.environ.get('VERIF_JUNK', '0') or 0))
        self.junk_on = bool(int(os.environ.get('VERIF_JUNK', '0') or 0))
        self.objects = {}
        self.nsteps = count_steps(program)
        self.build_objects(program.get('objects', {}))

    # -- objects -----------------------------------------------------------------
    def junk(self):
        if self.junk_on:
            rng = self._junk_rng
            for _ in range(rng.randrange(1, 6)):
                self._junk.append([object() for _ in range(rng.randrange(1, 40))])
                self._junk.append(bytearray(rng.randrange(1, 3000)))

    def build_objects(self, spec):
        obj = self.objects
        self.junk()
        if spec.get('subclassed'):
            # the program derives its own classes from the library's (adding nothing)
            def derive(cls):
                return type('My' + cls.__name__, (cls,), {})
            Flag, Tracked, Lock, Queue, Channel, Capacities, Resources, Pipe, UnboundedPipe = map(
                derive, _LIBRARY_CLASSES)
        else:
            Flag, Tracked, Lock, Queue, Channel, Capacities, Resources, Pipe, UnboundedPipe = \
                _LIBRARY_CLASSES
        if spec.get('cloned'):
            # the program makes its primitives by cloning template objects (a model component
            # that is deep-copied per node / per replication): clones are objects of their own
            import copy

            def cloning(cls):
                templates = {}

                def make(*args, **kwargs):
                    key = repr((args, sorted(kwargs.items())))
                    if key not in templates:
                        templates[key] = cls(*args, **kwargs)
                    return copy.deepcopy(templates[key])
                return make
            Flag, Lock, Queue, Channel, Pipe, UnboundedPipe = map(
                cloning, (Flag, Lock, Queue, Channel, Pipe, UnboundedPipe))
        obj['flags'] = []
        for _ in range(spec.get('flags', 0)):
            obj['flags'].append(Flag())
            self.junk()
        obj['tracked'] = []
        for value in spec.get('tracked', []):
            obj['tracked'].append(Tracked(decode(value)))
            self.junk()
        obj['locks'] = []
        for _ in range(spec.get('locks', 0)):
            obj['locks'].append(Lock())
            self.junk()
        obj['queues'] = []
        for _ in range(spec.get('queues', 0)):
            obj['queues'].append(Queue())
            self.junk()
        obj['channels'] = []
        for _ in range(spec.get('channels', 0)):
            obj['channels'].append(Channel())
            self.junk()
        obj['resources'] = []
        for res in spec.get('resources', []):
            cls = Capacities if res.get('kind') == 'capacities' else Resources
            if len(res['levels']) > 1:
                # somebody else declared a supply of the same resources before, spelled in
                # another order, and dropped it (its innards may or may not be collected yet)
                cls(**dict(reversed(list(res['levels'].items()))))
            obj['resources'].append(cls(**res['levels']))
            self.junk()
        obj['pipes'] = []
        for tp in spec.get('pipes', []):
            obj['pipes'].append(UnboundedPipe() if tp == 'inf' else Pipe(throughput=tp))
            self.junk()

    # -- logging -----------------------------------------------------------------
    def log(self, actor, what, *detail):
        sess = self.sess
        if sess.armed and sess.stack:   # R3: teardown after run() is not behaviour
            sess.events.append((sess.stack[-1].loop.time, actor, what) + detail)

    def new_exc(self, kind, tag):
        exc = EXC_TYPES[kind](tag)
        self.raised[id(exc)] = weakref.ref(exc)
        return exc

    def note_cancel(self, task, token):
        name = self.task_names.get(id(task))
        if name is not None:
            self.cancel_calls.setdefault(name, []).append(
                (self.sess.now(), token, str(task.status).split('.')[-1], self.sess.n,
                 len(self.sess.events)))

    def is_own(self, exc):
        ref = self.raised.get(id(exc))
        return ref is not None and ref() is exc

    # -- C03: what program code may observe at an await ---------------------------
    def observe(self, ctx, step, exc):
        sess = self.sess
        if not (sess.armed and sess.stack):
            return 'teardown'           # R3
        sess.stats['exceptions_observed'] += 1
        if isinstance(exc, GeneratorExit):
            return 'GeneratorExit'
        if self.is_own(exc):
            return exc_name(exc)
        if isinstance(exc, CancelTask):
            if ctx.task is not None and exc.subject is ctx.task:
                self.cancel_delivered.setdefault(ctx.name, {})[id(exc)] = exc
            if ctx.task is None or exc.subject is not ctx.task:
                sess.violation('foreign-canceltask',
                               '%s observed CancelTask of another task at step %s' % (
                                   ctx.name, step.get('id')))
            return 'CancelTask'
        if isinstance(exc, CancelScope):
            if any(exc.subject is scope for scope in ctx.scopes):
                pass
            elif id(exc.subject) in self.first_struck:
                pass    # already recorded where it struck; now propagating outwards
            elif any(exc.subject is scope for scope in ctx.first_scopes()):
                # D15: a failing activity of first() aborts first()'s internal scope while the
                # consumer is in its own loop body - the abort signal surfaces in consumer code
                self.first_struck.add(id(exc.subject))
                self.keep.append(exc.subject)
                sess.violation('first-internal-cancelscope-hits-consumer',
                               '%s observed the CancelScope of the internal scope of first() '
                               'inside its own loop body at step %s (%s)' % (
                                   ctx.name, step.get('id'), step.get('op')))
            else:
                sess.violation('foreign-cancelscope',
                               '%s observed a CancelScope of a scope that is not an open '
                               'scope of this activity at step %s (%s)' % (
                                   ctx.name, step.get('id'), step.get('op')))
            return 'CancelScope'
        if isinstance(exc, Interrupt):
            sess.violation('leaked-wakeup',
                           '%s observed internal wake-up %s at step %s' % (
                               ctx.name, type(exc).__name__, step.get('id')))
            return 'Interrupt'
        if isinstance(exc, Concurrent):
            for leaf in leaves(exc):
                if isinstance(leaf, CancelScope) and id(leaf.subject) in self.first_struck:
                    continue    # D15 propagating (recorded where it struck)
                if not self.is_own(leaf):
                    sess.violation('concurrent-foreign-content',
                                   '%s: Concurrent carries %r which no program code raised'
                                   % (ctx.name, leaf))
            return exc_name(exc)
        if isinstance(exc, PUBLIC_EXC):
            return exc_name(exc)
        if self.first_struck and isinstance(exc, AssertionError) and 'CancelScope' in str(exc) \
                and 'may only be specialised by Exception subclasses' in str(exc):
            return 'AssertionError'     # D15 propagating: Concurrent(<the leaked CancelScope>)
        sess.violation(
            'internal-error:%s' % type(exc).__name__,
            '%s observed %s: %s at step %s (%s)' % (
                ctx.name, type(exc).__name__, str(exc)[:200], step.get('id'), step.get('op')))
        return type(exc).__name__

    def classify_outcome(self, outcome):
        """C03: how may run() end"""
        kind, exc = outcome
        sess = self.sess
        if kind == 'ok':
            return 'ok'
        if kind == 'abort':
            return 'abort'
        for leaf in leaves(exc):
            if self.is_own(leaf):
                continue
            if isinstance(leaf, PUBLIC_EXC):
                continue
            name = type(leaf).__name__
            text = str(leaf)[:300]
            if isinstance(leaf, CancelScope) and id(leaf.subject) in self.first_struck:
                continue        # D15, recorded where it struck
            elif self.first_struck and isinstance(leaf, AssertionError) and \
                    'CancelScope' in text and 'may only be specialised' in text:
                continue        # D15 propagating: Concurrent(<the leaked CancelScope>)
            elif isinstance(leaf, Interrupt):
                mech = 'run-ended-with-signal:%s' % name
            elif isinstance(leaf, AssertionError):
                mech = 'run-ended-with-internal-assertion'
            elif isinstance(leaf, RuntimeError) and (
                    'cannot reuse already awaited' in text or 'already executing' in text
                    or 'ignored GeneratorExit' in text):
                mech = 'run-ended-with-coroutine-misuse'
            else:
                mech = 'run-ended-with-foreign:%s' % name
            sess.violation(mech, 'run() ended with %s: %s' % (name, text))
        return exc_name(exc)


def count_steps(program):
    def walk(steps):
        total = 0
        for step in steps:
            total += 1
            for key in ('body', 'cleanup'):
                if key in step:
                    total += walk(step[key])
            for child in step.get('children', ()):
                total += 1 + walk(child['steps'])
            for act in step.get('acts', ()):
                total += 1 + walk(act['steps'])
            if 'child' in step:
                total += 1 + walk(step['child']['steps'])
        return total
    return sum(1 + walk(root['steps']) for root in program['roots'])


_LIBRARY_CLASSES = (Flag, Tracked, Lock, Queue, Channel, Capacities, Resources, Pipe, UnboundedPipe)


# -- notifications -------------------------------------------------------------------
def make_notif(env, spec):
    share = spec.get('share')
    if share is not None:
        try:
            return env.shared[share]
        except KeyError:
            result = env.shared[share] = _make_notif(env, spec)
            return result
    return _make_notif(env, spec)


def _make_notif(env, spec):
    kind = spec['k']
    obj = env.objects
    if kind == 'delay':
        return time + spec['d']
    if kind == 'ge':
        return time >= spec['t']
    if kind == 'eq':
        return time == spec['t']
    if kind == 'lt':
        return time < spec['t']
    if kind == 'instant':
        return instant
    if kind == 'eternity':
        return eternity
    if kind == 'flag':
        flag = obj['flags'][spec['f']]
        return ~flag if spec.get('neg') else flag
    if kind == 'tracked':
        left = obj['tracked'][spec['i']]
        right = spec['v']
        if isinstance(right, dict) and 'i' in right:
            right = obj['tracked'][right['i']]
        else:
            right = decode(right)
        return {
            'lt': lambda: left < right, 'le': lambda: left <= right,
            'eq': lambda: left == right, 'ne': lambda: left != right,
            'ge': lambda: left >= right, 'gt': lambda: left > right,
        }[spec['cmp']]()
    if kind == 'levels':
        res = obj['resources'][spec['r']]
        return {
            'lt': lambda: res < spec['v'], 'le': lambda: res <= spec['v'],
            'eq': lambda: res == spec['v'], 'ne': lambda: res != spec['v'],
            'ge': lambda: res >= spec['v'], 'gt': lambda: res > spec['v'],
        }[spec['cmp']]()
    if kind == 'done':
        task = env.tasks.get(spec['task'])
        if task is None:
            return instant if spec.get('neg') else eternity
        return ~task.done if spec.get('neg') else task.done
    if kind == 'and':
        parts = [make_notif(env, sub) for sub in spec['a']]
        result = parts[0]
        for part in parts[1:]:
            result = result & part
        return result
    if kind == 'or':
        parts = [make_notif(env, sub) for sub in spec['a']]
        result = parts[0]
        for part in parts[1:]:
            result = result | part
        return result
    if kind == 'inv':
        return ~make_notif(env, spec['a'])
    raise ValueError('unknown notification %r' % (spec,))


# -- interpreter ---------------------------------------------------------------------
#: single operations of the statement of C20 (composite steps contain several of them)
YIELDING_OPS = {'wait', 'setflag', 'settracked', 'put', 'get', 'close', 'transfer', 'resource',
                'await_task'}
#: results of steps that did not perform the operation (refused by the primitive or skipped)
NOT_PERFORMED = ('closed', 'skipped', 'notask')


_REFERENCED = {}


def referenced_scope_ids(program):
    """ids of the blocks that some step addresses by id (guard / watch into another block)"""
    cached = _REFERENCED.get(id(program))
    if cached is not None and cached[0] is program:
        return cached[1]
    found = _referenced_scope_ids(program)
    if len(_REFERENCED) > 64:
        _REFERENCED.clear()
    _REFERENCED[id(program)] = (program, found)
    return found


def _referenced_scope_ids(program):
    found = set()

    def walk(node):
        if isinstance(node, dict):
            if isinstance(node.get('scope'), str):
                found.add(node['scope'])
            for value in node.values():
                walk(value)
        elif isinstance(node, list):
            for value in node:
                walk(value)
    walk(program.get('roots', []))
    return found


async def run_steps(env, ctx, steps):
    for step in steps:
        await exec_step(env, ctx, step)


async def exec_step(env, ctx, step):
    op = step['op']
    sid = step.get('id')
    env.log(ctx.name, 'start', op, sid)
    env.sess.stats['op:' + op] += 1
    turn = env.sess.n
    state = mark = None
    if op in YIELDING_OPS and env.sess.stack:
        state = env.sess.stack[-1]
        mark = state.seq
        called_at = state.loop.time
    try:
        result = await HANDLERS[op](env, ctx, step)
    except BaseException as exc:  # noqa: B902
        name = env.observe(ctx, step, exc)
        env.log(ctx.name, 'exc', op, sid, name)
        raise
    if op in YIELDING_OPS and result not in NOT_PERFORMED and env.sess.armed and env.sess.stack:
        # C20: an operation that waits for, signals or transfers something completes only
        # after the activity was suspended at least once - never within one activation
        env.sess.stats['c20_ops_checked'] += 1
        if env.sess.n == turn:
            env.sess.violation(
                'c20:completed-without-suspending:' + op,
                '%s: %s (step %s, %r) completed within the activation in which it was issued, '
                'at %r' % (ctx.name, op, sid, {k: v for k, v in step.items()
                                               if k not in ('op', 'id', 'body')}, env.sess.now()))
            if state is not None and env.sess.stack[-1] is state and len(state.by_key) < 3000:
                # C02: ... and thereby went on ahead of activities that had been made runnable
                # for this time before it
                loop = state.loop
                for rec in state.by_due.get(loop.time, ()):
                    if rec[2] is None or not rec[0] or rec[0] > mark or rec[2] is loop.activity \
                            or rec[1] != loop.time:
                        continue
                    if rec[3] is not None and getattr(rec[3], '_revoked', False):
                        continue
                    env.sess.violation(
                        'c02:went-on-ahead-of-runnable:' + op,
                        '%s: %s (step %s) completed at %r without giving %s, which had been made '
                        'runnable for that time before, its turn' % (
                            ctx.name, op, sid, loop.time, env.sess.label_of(rec[2])))
                    break
        elif state is not None and env.sess.stack[-1] is state and len(state.by_key) < 3000:
            # ... and after everything that was runnable when it was issued has had its turn:
            # whatever was queued for this time before the call comes first
            loop = state.loop
            if loop.time == called_at:
                me = loop.activity
                for rec in state.by_due.get(loop.time, ()):
                    if rec[2] is None or not rec[0] or rec[0] > mark or rec[2] is me:
                        continue
                    if rec[3] is not None and getattr(rec[3], '_revoked', False):
                        continue
                    if rec[1] != loop.time:
                        continue
                    env.sess.violation(
                        'c20:resumed-ahead-of-runnable:' + op,
                        '%s: %s (step %s) completed at %r before %s, which was runnable when '
                        'the operation was issued, had its turn' % (
                            ctx.name, op, sid, loop.time, env.sess.label_of(rec[2])))
                    break
    env.log(ctx.name, 'end', op, sid, result)


def instance_name(env, name):
    """a step may execute several times (loops): every instantiation gets its own label"""
    count = env.names_used.get(name, 0)
    env.names_used[name] = count + 1
    return name if count == 0 else '%s~%d' % (name, count)


def activity(env, spec, ctx=None, parent=None):
    """create the coroutine of an activity; its (and its task wrapper's) name is the label"""
    if ctx is None:
        ctx = Ctx(instance_name(env, spec['name']))
    env.ctxs[ctx.name] = ctx
    if parent is not None:
        env.actor_parent[ctx.name] = parent
    coro = _activity(env, ctx, spec)
    coro.__name__ = coro.__qualname__ = ctx.name
    return coro


async def _activity(env, ctx, spec):
    env.log(ctx.name, 'begin')
    try:
        await run_steps(env, ctx, spec['steps'])
    except BaseException as exc:  # noqa: B902
        env.log(ctx.name, 'fail', exc_name(exc) if not isinstance(
            exc, (Interrupt, GeneratorExit)) else type(exc).__name__)
        # (a task that was started and is failed, cancelled or forcefully closed is done when
        # this activation is over - `task.done` holds from then on)
        env.shadow['done'][spec['name']] = True
        if ctx.parent_key is not None and env.sess.armed and env.sess.stack:
            info = env.scope_inst.get(ctx.parent_key)
            if info is not None:
                if isinstance(exc, CancelTask):
                    kind = 'cancelled'
                elif isinstance(exc, GeneratorExit):
                    kind = 'closed'
                elif isinstance(exc, Interrupt):
                    kind = 'signal'
                else:
                    kind = 'failed'
                try:
                    ref = weakref.ref(exc)
                except TypeError:
                    ref = None
                info['ends'].append((ctx.name, kind, ref, id(exc), env.sess.now(),
                                     exc_name(exc) if kind == 'failed' else kind))
                if kind == 'failed' and info.get('left') is not None \
                        and not isinstance(exc, SUPPRESSED + tuple(info.get('extra_suppress', ()))):
                    # C05: whatever fails in a block is reported by the block - a child whose
                    # failure comes after the block has been left is reported by nobody
                    env.sess.violation(
                        'c05:child-failed-after-block-left',
                        '%s (started in block %s) failed with %s at %r, after control had left '
                        'the block at %r: the failure is in no Concurrent and aborts nothing' % (
                            ctx.name, ctx.parent_key, exc_name(exc), env.sess.now(),
                            info['left'][2]))
        raise
    env.log(ctx.name, 'finish')
    result = spec.get('result')
    if isinstance(result, dict) and 'exception' in result:
        # an exception *instance* handed back as a plain result (a report value), not raised
        result = (TaskCancelled(None, 'reported') if result['exception'] == 'cancelled'
                  else ValueError('a result, not a failure'))
    env.returned[ctx.name] = repr(result)
    env.shadow['done'][spec['name']] = True
    if ctx.parent_key is not None and env.sess.armed and env.sess.stack:
        info = env.scope_inst.get(ctx.parent_key)
        if info is not None:
            info['ends'].append((ctx.name, 'finished', None, None, env.sess.now(), 'finished'))
    return result


def spawn(env, ctx, scope, key, child):
    """scope.do(...) for a child spec; returns the task or None (refused)"""
    name = instance_name(env, child['name'])
    cctx = Ctx(name, parent_scope=scope, parent_key=key)
    coro = activity(env, child, cctx, parent=('task', key))
    kwargs = {}
    if child.get('volatile'):
        kwargs['volatile'] = True
    if child.get('after') is not None:
        kwargs['after'] = child['after']
    elif child.get('at') is not None:
        if child['at'] < time.now:
            coro.close()
            env.log(ctx.name, 'spawn-skipped', name)
            return None
        kwargs['at'] = child['at']
    if 'at' in kwargs or 'after' in kwargs:
        env.start_dates[name] = kwargs['at'] if 'at' in kwargs else time.now + kwargs['after']
    env.junk()
    info = env.scope_inst.get(key)
    was_left = info is not None and info.get('left') is not None
    try:
        task = scope.do(coro, **kwargs)
    except ScopeClosed:
        env.log(ctx.name, 'spawn-refused', name)
        env.sess.stats['spawn_refused'] += 1
        env.refused.append((weakref.ref(coro), name))
        if inspect.getcoroutinestate(coro) != inspect.CORO_CLOSED:
            env.sess.violation('c04:refused-payload-not-discarded',
                               'do() refused %s but left its payload open' % name)
        return None
    if was_left:
        env.sess.violation('c04:spawn-into-ended-scope-accepted',
                           '%s: do() accepted %s although control had left the block' % (
                               ctx.name, name))
    cctx.task = task
    env.task_inst[name] = task
    env.task_names[id(task)] = name
    env.tasks[child['name']] = task     # by-name references mean the latest instance
    if info is not None:
        info['children'].append((name, bool(child.get('volatile'))))
    env.log(ctx.name, 'spawn', name)
    if child.get('cancel_at_once'):
        # handed to the scope and cancelled in the same breath: it never gets to run
        env.note_cancel(task, ('at-once',))
        task.cancel('at-once')
        env.sess.stats['cancelled_at_once'] += 1
    return task


async def op_wait(env, ctx, step):
    notif = make_notif(env, step['n'])
    env.waiting[ctx.name] = (step, env.sess.n, notif)
    try:
        await notif
    finally:
        del env.waiting[ctx.name]
    if env.on_wait_end is not None:
        env.on_wait_end(ctx, step, notif)


async def prepared(env, step, make):
    """the awaitable of an operation may be made some time before it is awaited (as in
    `scope.do(flag.set(), after=d)`): nothing happens until it is awaited"""
    if not step.get('early'):
        return make()
    awaitable = make()
    env.sess.stats['prepared_early'] += 1
    await (time + step['early'])
    return awaitable


async def op_setflag(env, ctx, step):
    flag = env.objects['flags'][step['f']]
    if step.get('via_inverse'):
        # the same change made through the inverse handle: (~flag).set(not value)
        awaitable = await prepared(env, step, lambda: (~flag).set(not step.get('v', True)))
    else:
        awaitable = await prepared(env, step, lambda: flag.set(step.get('v', True)))
    # the shadow valuation follows the program's own actions, in the same turn as the call
    env.shadow['flags'][step['f']] = bool(step.get('v', True))
    await awaitable


#: every way of changing a tracked (integer) value through an operator: name -> (on the tracked
#: value, on the shadow value)
TRACKED_OPERATORS = {
    'add': lambda v, a: v + a, 'sub': lambda v, a: v - a, 'mul': lambda v, a: v * a,
    'floordiv': lambda v, a: v // a, 'mod': lambda v, a: v % a, 'pow': lambda v, a: v ** a,
    'lshift': lambda v, a: v << a, 'rshift': lambda v, a: v >> a, 'and': lambda v, a: v & a,
    'or': lambda v, a: v | a, 'xor': lambda v, a: v ^ a,
    'pow3': lambda v, a: pow(v, a[0], a[1]),
}


async def op_settracked(env, ctx, step):
    tracked = env.objects['tracked'][step['i']]
    if 'opr' in step:
        operate = TRACKED_OPERATORS[step['opr']]
        arg = step['arg']
        env.shadow['tracked'][step['i']] = operate(env.shadow['tracked'][step['i']],
                                                   tuple(arg) if isinstance(arg, list) else arg)
        await operate(tracked, tuple(arg) if isinstance(arg, list) else arg)
    elif 'add' in step:
        env.shadow['tracked'][step['i']] += step['add']
        await (tracked + step['add'])
    else:
        env.shadow['tracked'][step['i']] = step['v']
        await tracked.set(decode(step['v']))
    return repr(tracked.value)


async def op_lock(env, ctx, step):
    lock = env.objects['locks'][step['l']]
    async with lock:
        env.log(ctx.name, 'lock-enter', step['l'])
        try:
            await run_steps(env, ctx, step['body'])
        finally:
            env.log(ctx.name, 'lock-leave', step['l'])


async def op_put(env, ctx, step):
    stream = env.objects[step.get('kind', 'queues')][step['q']]
    awaitable = await prepared(env, step, lambda: stream.put(step['item']))
    try:
        await awaitable
    except StreamClosed:
        return 'closed'
    return 'ok'


async def op_get(env, ctx, step):
    stream = env.objects[step.get('kind', 'queues')][step['q']]
    try:
        return await stream
    except StreamClosed:
        return 'closed'


async def op_iter(env, ctx, step):
    stream = env.objects[step.get('kind', 'queues')][step['q']]
    got = []
    count = 0
    limit = step.get('max')
    if limit == 0:
        return got
    # NOTE: the async generator is deliberately *not* bound to a local variable.  On CPython
    # 3.12 closing a coroutine that is suspended in ``agen.__anext__()`` does not reach the
    # generator's frame (asend.close() is a no-op); the generator is only finalised - and its
    # pending wake-up revoked - when its last reference goes away.  A named local survives in
    # the frame object that tracebacks of earlier wake-ups keep alive (see DESIGN, D16).
    async for item in stream:
        got.append(item)
        env.log(ctx.name, 'iter-item', step.get('id'), item)
        if step.get('body'):
            await run_steps(env, ctx, step['body'])
        count += 1
        if limit is not None and count >= limit:
            break
    return got


async def op_close(env, ctx, step):
    stream = env.objects[step.get('kind', 'queues')][step['q']]
    await (await prepared(env, step, lambda: stream.close()))


async def op_borrow(env, ctx, step):
    res = env.objects['resources'][step['r']]
    block = res.claim(**step['amounts']) if step.get('claim') else res.borrow(**step['amounts'])
    entered = False
    try:
        async with block as inner:
            entered = True
            env.log(ctx.name, 'borrow-held', step.get('id'))
            try:
                if step.get('nested'):
                    async with inner.borrow(**step['nested']):
                        await run_steps(env, ctx, step['body'])
                else:
                    await run_steps(env, ctx, step['body'])
            finally:
                env.log(ctx.name, 'borrow-leaving', step.get('id'))
    except ResourcesUnavailable:
        if entered:
            raise       # (raised by the program's own steps inside the block: not a refusal)
        return 'unavailable'
    return 'ok'


async def op_resource(env, ctx, step):
    res = env.objects['resources'][step['r']]
    how = step['how']
    shadow = env.shadow['levels'][step['r']]
    if how == 'increase':
        for key, value in step['amounts'].items():
            shadow[key] += value
        await res.increase(**step['amounts'])
    elif how == 'decrease':
        current = dict(res.levels)
        if all(current[key] >= value for key, value in step['amounts'].items()):
            for key, value in step['amounts'].items():
                shadow[key] -= value
            await res.decrease(**step['amounts'])
        else:
            return 'skipped'
    else:
        shadow.update(step['amounts'])
        await res.set(**step['amounts'])
    # (the order in which the levels are listed is observable: not sorted here)
    return [list(pair) for pair in res.levels]


async def op_transfer(env, ctx, step):
    pipe = env.objects['pipes'][step['p']]
    await (await prepared(env, step, lambda: pipe.transfer(step['v'], step.get('limit'))))


class LenientScope(Scope):
    """ignores failures of one more type, passes on failures of another one unwrapped"""
    EXTRA_SUPPRESS = (ProgStream,)
    EXTRA_PROMOTE = (ProgUnavailable,)
    SUPPRESS_CONCURRENT = Scope.SUPPRESS_CONCURRENT + EXTRA_SUPPRESS
    PROMOTE_CONCURRENT = Scope.PROMOTE_CONCURRENT + EXTRA_PROMOTE


async def op_scope(env, ctx, step):
    notif = step.get('n')
    if notif is not None:
        scope = until(make_notif(env, notif))
    elif step.get('custom'):
        # a scope class of the program's own that extends the two documented class attributes
        scope = LenientScope()
    else:
        scope = Scope()
    sid = step.get('id')
    env.scope_seq += 1
    key = '%s#%d' % (sid, env.scope_seq)
    info = env.scope_inst[key] = {
        'sid': sid, 'owner': ctx.name, 'children': [], 'ends': [], 'until': notif is not None,
        'entered': env.sess.now(), 'left': None, 'body': None,
        'extra_suppress': LenientScope.EXTRA_SUPPRESS if isinstance(scope, LenientScope) else (),
        'extra_promote': LenientScope.EXTRA_PROMOTE if isinstance(scope, LenientScope) else (),
    }
    if sid in env.referenced_scopes:
        env.scopes[sid] = (scope, key)
    env.scope_keys[id(scope)] = key
    ctx.scopes.append(scope)
    body_exc = outer_exc = None
    try:
        try:
            if step.get('manual'):
                # the context-manager protocol driven by hand, as contextlib.AsyncExitStack
                # does: __aexit__ is called with the exception as an argument, *outside* of
                # any `except` block (no exception is "currently being handled")
                env.sess.stats['manual_blocks'] += 1
                await scope.__aenter__()
                try:
                    for child in step.get('children', ()):
                        spawn(env, ctx, scope, key, child)
                    await run_steps(env, ctx, step['body'])
                except BaseException as exc:  # noqa: B902
                    body_exc = exc
                    info['body'] = (env.sess.now(), type(exc).__name__)
                if body_exc is None:
                    env.log(ctx.name, 'body-done', sid)
                    info['body_done'] = True
                    await scope.__aexit__(None, None, None)
                elif not await scope.__aexit__(type(body_exc), body_exc,
                                               body_exc.__traceback__):
                    raise body_exc
            else:
                async with scope:
                    for child in step.get('children', ()):
                        spawn(env, ctx, scope, key, child)
                    try:
                        await run_steps(env, ctx, step['body'])
                    except BaseException as exc:  # noqa: B902
                        body_exc = exc
                        info['body'] = (env.sess.now(), type(exc).__name__)
                        raise
                    env.log(ctx.name, 'body-done', sid)
                    info['body_done'] = True
        except BaseException as exc:  # noqa: B902
            outer_exc = exc
            raise
        finally:
            ctx.scopes.remove(scope)
            env.ended_scopes.add(sid)
            env.log(ctx.name, 'scope-left', sid, key)
            if env.sess.armed and env.sess.stack:
                scope_exit_monitor(env, ctx, key, scope, body_exc, outer_exc)
            body_exc = outer_exc = None     # break the frame <-> traceback cycle
    except Concurrent as exc:
        if step.get('catch'):
            return exc_name(exc)
        raise


SUPPRESSED = (TaskCancelled, TaskClosed, GeneratorExit)


def scope_exit_monitor(env, ctx, key, scope, body_exc, outer_exc):
    """C04 (containment at exit) and C05 (how a scope may fail), evaluated where control
    leaves the block; everything compared is read from the log of what really happened"""
    sess = env.sess
    info = env.scope_inst[key]
    now = sess.now()
    info['left'] = (len(sess.events), sess.n, now)
    sess.stats['scope_exits'] += 1
    # ---- C04: every task started in the block is done ----
    statuses = {}
    for name, volatile in info['children']:
        task = env.task_inst.get(name)
        if task is None:
            continue
        statuses[name] = str(task.status).split('.')[-1]
        if not task.done:
            sess.violation('c04:child-alive-at-exit',
                           'block %s of %s was left at %r while its child %s is %s' % (
                               key, ctx.name, now, name, statuses[name]))
    info['statuses'] = statuses
    # a watcher (volatile child whose payload is another task or a notification) that ended
    # with anything but its own closing has failed: it aborts the block like any failing child,
    # but its failure is that of a task elsewhere and is not in the block's own record
    watcher_failed = False
    for watcher, watched in info.get('watchers', ()):
        if not watcher.done:
            sess.violation('c04:child-alive-at-exit',
                           'block %s of %s was left at %r while a volatile child watching '
                           'another task / a notification is not done' % (key, ctx.name, now))
        elif watcher.__exception__ is not None and (
                not isinstance(watcher.__exception__, TaskClosed)
                or (isinstance(watched, Task) and watched.done
                    and watched.__exception__ is watcher.__exception__)):
            # (the TaskClosed of its own closing is no failure, that of the watched task is)
            watcher_failed = True
    if watcher_failed:
        sess.stats['c05_blocks_tainted'] += 1
        return
    normal = (outer_exc is None and body_exc is None and info.get('body_done')
              and not info['until'])
    info['normal'] = normal
    if normal:
        sess.stats['normal_exits'] += 1
        for name, volatile in info['children']:
            if volatile or name not in statuses:
                continue
            if statuses[name] == 'SUCCESS':
                continue
            if statuses[name] == 'CANCELLED' and env.cancel_calls.get(name):
                continue
            sess.violation('c04:normal-exit-child-not-completed',
                           'block %s ended normally but its non-volatile child %s is %s' % (
                               key, name, statuses[name]))
        # volatile children are closed only after all non-volatile ones have finished
        volatile_names = {name for name, volatile in info['children'] if volatile}
        closed_seen = None
        for end in info['ends']:
            if end[0] in volatile_names:
                if end[1] == 'closed' and closed_seen is None:
                    closed_seen = end[0]
            elif closed_seen is not None:
                sess.violation('c04:volatile-closed-before-nonvolatile-finished',
                               'block %s: volatile child %s was closed before non-volatile '
                               'child %s ended (%s)' % (key, closed_seen, end[0], end[1]))
                break
    # ---- C05: outcome of the block ----
    own = body_exc is None or (isinstance(body_exc, CancelScope) and body_exc.subject is scope)
    failures = [end for end in info['ends'] if end[1] == 'failed']
    if not info['until'] and not failures:
        # a plain Scope is only ever aborted by the failure of one of its children
        closed = [end[0] for end in info['ends'] if end[1] == 'closed'
                  and (end[0], False) in info['children']]
        if body_exc is not None and own:
            sess.violation('c05:aborted-without-failure',
                           'block %s: the body was aborted by the block\'s own signal although '
                           'no child failed' % key)
        elif normal and closed:
            sess.violation('c05:aborted-without-failure',
                           'block %s: non-volatile children %s were closed although neither '
                           'body nor children failed' % (key, closed))
    content = []
    privileged = []
    suppressed_types = SUPPRESSED + tuple(info.get('extra_suppress', ()))
    privileged_types = PRIVILEGED + tuple(info.get('extra_promote', ()))
    for end in failures:
        exc = end[2]() if end[2] is not None else None
        if exc is None:
            content = None      # object gone: cannot compare identities (does not happen)
            break
        if isinstance(exc, suppressed_types):
            continue
        if isinstance(exc, privileged_types):
            privileged.append(exc)
        content.append(exc)
    sess.stats['c05_blocks_checked'] += 1
    if any(end[1] == 'signal' for end in info['ends']):
        # a child ended with an internal signal: that leak is reported where program code saw
        # it (C03, e.g. D15); what the parent makes of it is not judged here
        content = None
        sess.stats['c05_blocks_tainted'] += 1
    if content is not None:
        if failures or not own:
            sess.stats['c05_failing_blocks'] += 1
        foreign = (outer_exc is not None and isinstance(outer_exc, (Interrupt, GeneratorExit))
                   and not (isinstance(outer_exc, CancelScope) and outer_exc.subject is scope))
        if own and foreign:
            # a signal that is not this block's own (cancellation of the owning task, abort of
            # an enclosing block, close) struck the body or the graceful shutdown and passes on
            # - unless a child failed with a privileged exception: those are never lost
            sess.stats['c05_foreign_signal_exits'] += 1
            if privileged:
                sess.violation('c05:privileged-not-promoted',
                               'block %s: a child failed with privileged %s, the block was '
                               'struck by a %s and ended with that - the privileged failure is '
                               'lost' % (key, exc_name(privileged[0]), describe(outer_exc)))
        elif own:
            if privileged:
                if outer_exc is not privileged[0]:
                    sess.violation('c05:privileged-not-promoted',
                                   'block %s: a child failed with privileged %s but the block '
                                   'ended with %s' % (key, exc_name(privileged[0]),
                                                      describe(outer_exc)))
            elif content:
                if not isinstance(outer_exc, Concurrent):
                    sess.violation('c05:child-failure-lost',
                                   'block %s: children failed with [%s] but the block ended '
                                   'with %s' % (key, ', '.join(map(exc_name, content)),
                                                describe(outer_exc)))
                else:
                    got = list(outer_exc.children)
                    listed = type(outer_exc).specialisations
                    if listed is not None and set(listed) != {type(child) for child in got}:
                        sess.violation('c05:concurrent-content',
                                       'block %s: the Concurrent is of type %r but carries '
                                       'children of types %s' % (
                                           key, type(outer_exc), sorted(
                                               '%s.%s' % (type(c).__module__, type(c).__qualname__)
                                               for c in got)))
                    if len(got) != len(content) or any(
                            a is not b for a, b in zip(got, content)):
                        sess.violation('c05:concurrent-content',
                                       'block %s: Concurrent carries [%s], direct children '
                                       'failed with [%s] (in this order)' % (
                                           key, ', '.join(map(exc_name, got)),
                                           ', '.join(map(exc_name, content))))
            elif outer_exc is not None and not (
                    isinstance(outer_exc, CancelScope) and outer_exc.subject is scope):
                sess.violation('c05:spurious-exception',
                               'block %s: neither body nor children failed but the block '
                               'ended with %s' % (key, describe(outer_exc)))
            if outer_exc is not None and isinstance(outer_exc, CancelScope) \
                    and outer_exc.subject is scope:
                sess.violation('c05:own-signal-escaped',
                               'block %s ended with its own cancel signal' % key)
        else:
            # (a privileged failure of a child takes precedence over a regular exception of
            # the body; between two privileged ones the statement does not choose)
            allowed = privileged if privileged and not isinstance(body_exc, privileged_types) \
                else [body_exc] + privileged
            if not any(outer_exc is exc for exc in allowed):
                sess.violation('c05:body-exception-replaced',
                               'block %s: the body ended with %s but the block ended with %s'
                               % (key, describe(body_exc), describe(outer_exc)))
                if isinstance(body_exc, CancelTask):
                    # C06: the cancellation is raised inside the task and its awaiters get
                    # TaskCancelled - a block of the task that it unwinds must hand it on
                    sess.violation('c06:cancellation-replaced-by-block',
                                   'block %s: the cancellation of the task that struck its body '
                                   'left the block as %s' % (key, describe(outer_exc)))
        # promptness: the block ends at the virtual time of the first failure
        times = [end[4] for end in failures
                 if end[2] is not None and not isinstance(end[2](), suppressed_types)]
        if not own and not isinstance(body_exc, (Interrupt, GeneratorExit)):
            times.append(info['body'][0])
        if foreign:
            times.append(now)
        if times and now != min(times):
            sess.violation('c05:abort-not-prompt',
                           'block %s: first failure at %r but the block was left at %r' % (
                               key, min(times), now))


def describe(exc):
    if exc is None:
        return 'no exception'
    if isinstance(exc, (Interrupt, GeneratorExit)):
        return type(exc).__name__
    return exc_name(exc)


async def op_spawn(env, ctx, step):
    """spawn a sibling into the scope this activity was started in (or a named scope)"""
    if step.get('scope'):
        scope, key = env.scopes.get(step['scope'], (None, None))
    else:
        scope, key = ctx.parent_scope, ctx.parent_key
    if scope is None:
        return 'noscope'
    task = spawn(env, ctx, scope, key, step['child'])
    return 'refused' if task is None else 'ok'


async def op_cancel(env, ctx, step):
    # '<self>': the task cancels itself (cancel() called while its own runner is executing)
    task = ctx.task if step['task'] == '<self>' else env.tasks.get(step['task'])
    if task is None:
        return 'notask'
    if step['task'] == '<self>':
        env.sess.stats['self_cancels'] += 1
    env.note_cancel(task, tuple(step.get('token', ())))
    task.cancel(*step.get('token', ()))
    if step.get('yield', True):
        await instant
    return str(task.status).split('.')[-1]


async def op_await_task(env, ctx, step):
    task = env.tasks.get(step['task'])
    if task is None:
        return 'notask'
    name = env.task_names.get(id(task))
    record = env.await_results.setdefault(name, [])
    key = object()
    env.awaiting[key] = (ctx.name, name, task, env.sess.now())
    try:
        try:
            value = await task
        finally:
            del env.awaiting[key]
    except (TaskCancelled, TaskClosed) as exc:
        record.append((ctx.name, 'TaskCancelled' if isinstance(exc, TaskCancelled)
                       else 'TaskClosed', id(exc), env.sess.now(),
                       getattr(exc, 'subject', None) is task, tuple(exc.args)))
        if step.get('reraise'):
            raise
        return exc_name(exc)
    except BaseException as exc:  # noqa: B902
        if not isinstance(exc, (Interrupt, GeneratorExit)) and env.sess.armed \
                and env.sess.stack:     # R3: not during teardown
            record.append((ctx.name, 'exc:' + type(exc).__name__, id(exc), env.sess.now(),
                           None, None))
        if env.is_own(exc) and step.get('catch'):
            return exc_name(exc)
        raise
    record.append((ctx.name, 'value', repr(value), env.sess.now(), None, None))
    return value


async def op_raise(env, ctx, step):
    raise env.new_exc(step.get('kind', 'err'), step['tag'])


async def op_ticker(env, ctx, step):
    maker = usim.interval if step['how'] == 'interval' else usim.delay
    count = 0
    limit = step['n']
    try:
        async for now in maker(step['p']):
            env.log(ctx.name, 'tick', step.get('id'), now)
            bodies = step.get('bodies') or [[]]
            await run_steps(env, ctx, bodies[count % len(bodies)])
            count += 1
            if count >= limit:
                break
    except IntervalExceeded:
        return 'exceeded@%d' % count
    return count


async def op_collect(env, ctx, step):
    acts = [activity(env, act, parent=('act', ctx.name)) for act in step['acts']]
    try:
        return await usim.collect(*acts)
    except Concurrent as exc:
        if step.get('catch'):
            return exc_name(exc)
        raise
    finally:
        for act in acts:
            # (only what never got to run is discarded here; stopping a started activity is
            # the library's job - closing it from here would hide that it was not stopped)
            if inspect.getcoroutinestate(act) == inspect.CORO_CREATED:
                act.close()


def _track_first(ctx, agen):
    ctx.first_agens.append(weakref.ref(agen))
    return agen


async def op_first(env, ctx, step):
    acts = [activity(env, act, parent=('act', ctx.name)) for act in step['acts']]
    got = []
    try:
        try:
            async for value in _track_first(
                    ctx, usim.first(*acts, count=step.get('count', 1))):
                got.append(value)
                env.log(ctx.name, 'first-item', step.get('id'), value)
                if step.get('body'):
                    await run_steps(env, ctx, step['body'])
                if step.get('brk') is not None and len(got) >= step['brk']:
                    break
        except ValueError:
            return 'ValueError'
        except Concurrent as exc:
            if step.get('catch'):
                return exc_name(exc)
            raise
    finally:
        for act in acts:
            # (only what never got to run is discarded here; stopping a started activity is
            # the library's job - closing it from here would hide that it was not stopped)
            if inspect.getcoroutinestate(act) == inspect.CORO_CREATED:
                act.close()
    return got


async def op_nop(env, ctx, step):
    return None


async def op_guard(env, ctx, step):
    """run the body; on the way out - also when cancelled, interrupted or closed - hand
    follow-up work to the scope this activity was started in (a synchronous scope.do())"""
    try:
        await run_steps(env, ctx, step['body'])
    finally:
        if step.get('scope'):
            scope, key = env.scopes.get(step['scope'], (None, None))
        else:
            scope, key = ctx.parent_scope, ctx.parent_key
        if scope is not None and env.sess.armed and env.sess.stack:
            env.sess.stats['cleanup_spawns'] += 1
            spawn(env, ctx, scope, key, step['child'])
        victim = env.tasks.get(step.get('cancel'))
        if victim is not None and victim is not ctx.task and env.sess.armed and env.sess.stack:
            env.sess.stats['cleanup_cancels'] += 1
            env.note_cancel(victim, ('withdrawn',))
            victim.cancel('withdrawn')


async def op_watch(env, ctx, step):
    """scope.do() with a payload that is not a coroutine: another (running) Task or a bare
    notification, as a volatile child of the innermost block of this activity (or of the block
    it was started in).  The watcher itself is invisible to the monitors; what they see is what
    happens to everybody else."""
    if step.get('scope'):
        scope = env.scopes.get(step['scope'], (None, None))[0]
    else:
        scope = ctx.scopes[-1] if ctx.scopes else ctx.parent_scope
    if scope is None:
        return 'noscope'
    if step['payload'] == 'task':
        payload = env.tasks.get(step['task'])
        if payload is None or payload is ctx.task:
            return 'notask'
    else:
        payload = make_notif(env, step['n'])
    try:
        watcher = scope.do(payload, volatile=True)
    except ScopeClosed:
        env.sess.stats['watchers_refused'] += 1
        return 'refused'
    info = env.scope_inst.get(env.scope_keys.get(id(scope)))
    if info is not None:
        info.setdefault('watchers', []).append((watcher, payload))
    env.sess.stats['watchers:' + step['payload']] += 1
    return 'watching'


async def op_nested(env, ctx, step):
    """a complete simulation run synchronously from inside an activity (nested run()); the
    enclosing simulation goes on afterwards"""
    async def inner(levels):
        await (time + step['d'])
        if levels > 1:
            # ... which runs yet another simulation from inside one of its activities
            started = time.now
            usim.run(inner(levels - 1), start=step.get('start', 0) + 1000)
            if time.now != started:
                raise AssertionError('clock of a nested simulation moved from %r to %r while '
                                     'a simulation nested in it ran' % (started, time.now))
            await (time + step['d'])
        await instant

    before = time.now
    usim.run(inner(step.get('levels', 1)), start=step.get('start', 0))
    env.sess.stats['nested_runs'] += 1
    return time.now == before


async def op_phases(env, ctx, step):
    """Two live subscriptions of one activity to the same notification that are left in the
    order in which they were made (not nested): an async generator enters until(n) and yields
    from inside it; its consumer - this activity - then enters an until(n) of its own and lets
    the generator leave *its* block first.  (The generator's block is left before anybody else
    gets to run, so n cannot fire while a block is open across a yield - that would be the
    user's bug, like yielding inside a cancel scope.)"""
    notif = make_notif(env, step['n'])
    if notif:
        return 'skipped'        # already true: the generator's block could not be entered
    env.sess.stats['phases'] += 1

    async def phases():
        async with until(notif):
            yield 'warm-up'
        yield 'main'
    box = [phases()]
    mine = until(notif)
    ctx.scopes.append(mine)
    try:
        await box[0].__anext__()
        async with mine:
            await box[0].__anext__()
            await run_steps(env, ctx, step['body'])
    finally:
        ctx.scopes.remove(mine)
        box.clear()
    return 'ok'


async def op_graceful(env, ctx, step):
    """a body with an *asynchronous* clean-up: when the body is cancelled, interrupted or fails
    (anything but a forceful close) the clean-up steps are awaited before the exception passes on
    - a graceful shutdown, during which the activity can be struck again"""
    try:
        await run_steps(env, ctx, step['body'])
    except GeneratorExit:
        raise
    except BaseException:  # noqa: B902
        env.sess.stats['graceful_cleanups'] += 1
        await run_steps(env, ctx, step['cleanup'])
        raise


async def op_fragile(env, ctx, step):
    """a body whose clean-up fails: when it is forcefully closed it raises an exception of its
    own instead (never awaits there, never swallows the close silently)"""
    try:
        await run_steps(env, ctx, step['body'])
    except GeneratorExit:
        env.sess.stats['failed_while_closed'] += 1
        raise env.new_exc(step.get('kind', 'err'), step['tag'])


async def op_try(env, ctx, step):
    """run the body, catch (only) exceptions raised by program code"""
    try:
        await run_steps(env, ctx, step['body'])
    except BaseException as exc:  # noqa: B902
        if env.is_own(exc):
            return exc_name(exc)
        raise
    return None


HANDLERS = {
    'wait': op_wait, 'setflag': op_setflag, 'settracked': op_settracked, 'lock': op_lock,
    'put': op_put, 'get': op_get, 'iter': op_iter, 'close': op_close,
    'borrow': op_borrow, 'resource': op_resource, 'transfer': op_transfer,
    'scope': op_scope, 'spawn': op_spawn, 'cancel': op_cancel, 'await_task': op_await_task,
    'raise': op_raise, 'ticker': op_ticker, 'collect': op_collect, 'first': op_first,
    'nop': op_nop, 'try': op_try, 'guard': op_guard, 'watch': op_watch, 'nested': op_nested, 'phases': op_phases, 'graceful': op_graceful, 'fragile': op_fragile,
}


RANK = {'CREATED': 0, 'RUNNING': 1, 'SUCCESS': 2, 'FAILED': 2, 'CANCELLED': 2}


class LifecycleMonitor:
    """C06: status sequence, stable outcome, effect of cancel(); attached per execution"""

    def __init__(self, env):
        self.env = env
        self.history = {}       # task instance name -> [status, ...] (changes only)
        self.pending = []       # cancel calls of the current time step still to be judged
        self.delivered = {}     # task instance name -> CancelTask signals delivered in this step
        self.judged = 0
        sess = env.sess
        sess.boundary_hooks.append(self.sample)
        sess.step_end_hooks.append(self.step_end)

    def status(self, task):
        return str(task.status).split('.')[-1]

    def sample(self, sess, loop=None, target=None, signal=None):
        env = self.env
        if isinstance(signal, CancelTask) and not getattr(signal, '_revoked', False):
            # a cancellation on its way into the task: counted where the loop delivers it (what
            # the task's own code gets to see may be fewer - clean-up code of a primitive that is
            # struck twice hands on the later signal only)
            name = env.task_names.get(id(signal.subject))
            if name is not None:
                self.delivered[name] = self.delivered.get(name, 0) + 1
        for name, task in env.task_inst.items():
            now = self.status(task)
            seq = self.history.setdefault(name, [])
            if not seq or seq[-1] != now:
                if seq:
                    if RANK[now] < RANK[seq[-1]] or RANK[seq[-1]] == 2:
                        sess.violation(
                            'c06:status-went-backwards',
                            'task %s changed status %s -> %s' % (name, seq[-1], now))
                seq.append(now)
                sess.stats['c06_status_changes'] += 1
        sess.stats['c06_samples'] += 1

    def step_end(self, sess, loop, prev_time):
        env = self.env
        self.sample(sess)
        for awaiter, name, task, since in list(env.awaiting.values()):
            sess.stats['c06_pending_awaits_checked'] += 1
            if task.done and sess.armed:
                # whoever waits for a task is woken in the time step in which it is done
                sess.violation(
                    'c06:awaiter-not-woken',
                    '%s has been awaiting task %s since %r; the task is %s at the end of time '
                    'step %r but the awaiter has not been resumed' % (
                        awaiter, name, since, self.status(task), prev_time))
        for name, calls in env.cancel_calls.items():
            task = env.task_inst.get(name)
            if task is None:
                continue
            for when, token, status, n, position in calls:
                if when != prev_time:
                    continue
                self.judged += 1
                sess.stats['c06_cancels_judged'] += 1
                if status in ('CREATED', 'RUNNING') and not task.done:
                    # not done yet is fine only for a payload with an asynchronous clean-up -
                    # but then the cancellation must have been raised in it in this time step
                    # (an exit handler the signal passes through may replace it - a scope whose
                    # child failed with KeyboardInterrupt raises that instead: any exception
                    # raised in the task in this time step after the call counts as delivery)
                    seen = any(event[1] == name and event[2] == 'exc' and event[0] == when
                               for event in sess.events[position:])
                    if seen:
                        sess.stats['c06_cancel_seen_cleanup_pending'] += 1
                    else:
                        sess.violation(
                            'c06:cancel-not-effective-in-time-step',
                            'task %s was %s when cancelled at %r; at the end of that time step '
                            'it is neither done nor has the cancellation been raised in it'
                            % (name, status, when))
            # every cancel() of a suspended task is a cancellation of its own: a task that
            # survives the step (clean-up that takes time) has been struck once per call
            here = [call for call in calls if call[0] == prev_time and call[2] == 'RUNNING']
            if len(here) > 1 and not task.done:
                delivered = self.delivered.get(name, 0)
                sess.stats['c06_repeated_cancels_judged'] += 1
                if 1 <= delivered < len(here):
                    sess.violation(
                        'c06:cancel-not-effective-in-time-step',
                        'task %s was cancelled %d times at %r while suspended; it is still '
                        'unwinding at the end of that time step but only %d cancellation(s) '
                        'were raised in it' % (name, len(here), prev_time, delivered))
        env.cancel_delivered.clear()
        self.delivered.clear()

    def finish(self):
        env = self.env
        sess = env.sess
        self.sample(sess)
        begun = {}
        cancel_seen = {}
        for index, event in enumerate(sess.events):
            if event[2] == 'begin':
                begun.setdefault(event[1], (index, event[0]))
                due = env.start_dates.get(event[1])
                if due is not None and event[0] < due:
                    # (a task that is to start later has not started: cancelling it meanwhile
                    # must find it unstarted)
                    sess.violation('c06:cancelled-before-start-but-ran',
                                   'task %s was to start at %r but its code began to run at %r'
                                   % (event[1], due, event[0]))
            if event[2] == 'fail' and event[3] == 'CancelTask':
                cancel_seen[event[1]] = event[0]
        for name, calls in env.cancel_calls.items():
            task = env.task_inst.get(name)
            if task is None:
                continue
            final = self.status(task)
            effective = [call for call in calls if call[2] in ('CREATED', 'RUNNING')]
            if not effective:
                continue
            first = effective[0]
            if first[2] == 'CREATED':
                sess.stats['c06_cancel_before_start'] += 1
                if name in begun:
                    sess.violation(
                        'c06:cancelled-before-start-but-ran',
                        'task %s was cancelled at %r before its first activation but its '
                        'code ran at %r' % (name, first[0], begun[name][1]))
                if final != 'CANCELLED':
                    sess.violation(
                        'c06:cancelled-before-start-wrong-status',
                        'task %s cancelled before start ended as %s' % (name, final))
                else:
                    # nothing can overtake a cancellation that took effect before the first
                    # activation: the stored outcome is that TaskCancelled, whatever happens
                    # to the scope of the task afterwards
                    stored = task.__exception__
                    if not isinstance(stored, TaskCancelled) or tuple(stored.args) != first[1] \
                            or stored.subject is not task:
                        sess.violation(
                            'c06:cancel-outcome-overwritten',
                            'task %s was cancelled with token %r before its first activation; '
                            'its stored outcome is %r' % (name, first[1], stored))
            else:
                sess.stats['c06_cancel_running'] += 1
            for awaiter, kind, ident, when, subject_ok, args in env.await_results.get(name, ()):
                if kind == 'TaskCancelled' and final == 'CANCELLED':
                    if not subject_ok:
                        sess.violation('c06:taskcancelled-wrong-subject',
                                       '%s awaiting %s got TaskCancelled of another task' % (
                                           awaiter, name))
                    # With repeated cancels a later one can overtake the first while that is
                    # still unwinding through asynchronous exit handlers; the statement does not
                    # say which token wins, so any token of an effective cancel() is accepted.
                    if args not in [call[1] for call in effective]:
                        sess.violation(
                            'c06:taskcancelled-wrong-token',
                            '%s awaiting %s got token %r, cancel() was called with %r' % (
                                awaiter, name, args, [call[1] for call in effective]))
        # every awaiter of one task sees the same outcome (identity for exceptions)
        for name, records in env.await_results.items():
            outcomes = {(kind, ident) for _, kind, ident, _, _, _ in records}
            sess.stats['c06_awaits'] += len(records)
            if len(outcomes) > 1:
                sess.violation(
                    'c06:awaiters-disagree',
                    'awaiters of %s received different outcomes: %s' % (
                        name, sorted((kind, when) for _, kind, _, when, _, _ in records)))
            task = env.task_inst.get(name)
            if task is not None and records:
                final = self.status(task)
                kinds = {kind for _, kind, _, _, _, _ in records}
                expect = {'SUCCESS': 'value', 'CANCELLED': None, 'FAILED': 'exc'}[final] \
                    if final in ('SUCCESS', 'CANCELLED', 'FAILED') else None
                if final == 'SUCCESS' and kinds != {'value'}:
                    sess.violation('c06:outcome-does-not-match-status',
                                   'task %s is SUCCESS but awaiters got %s' % (name, kinds))
                if final == 'FAILED' and not all(k.startswith('exc:') for k in kinds):
                    sess.violation('c06:outcome-does-not-match-status',
                                   'task %s is FAILED but awaiters got %s' % (name, kinds))
                if final == 'CANCELLED' and not kinds <= {'TaskCancelled', 'TaskClosed'}:
                    sess.violation('c06:outcome-does-not-match-status',
                                   'task %s is CANCELLED but awaiters got %s' % (name, kinds))
        # ground truth from the payload's own log: a payload that ended by raising an exception
        # of the program makes a FAILED task whose awaiters receive that exception
        for event in sess.events:
            if event[2] == 'fail' and str(event[3]).startswith('Prog'):
                task = env.task_inst.get(event[1])
                if task is None:
                    continue
                sess.stats['c06_failures_followed'] += 1
                final = self.status(task)
                if final != 'FAILED':
                    sess.violation('c06:failed-task-wrong-status',
                                   'the payload of task %s ended by raising %s but the task is '
                                   '%s' % (event[1], event[3], final))
                wrong = [kind for _, kind, _, _, _, _ in env.await_results.get(event[1], ())
                         if not kind.startswith('exc:')]
                if wrong:
                    sess.violation('c06:outcome-does-not-match-status',
                                   'the payload of task %s ended by raising %s but awaiters '
                                   'received %s' % (event[1], event[3], wrong))
        for name, value in env.returned.items():
            task = env.task_inst.get(name)
            if task is None:
                continue
            sess.stats['c06_results_followed'] += 1
            final = self.status(task)
            if final != 'SUCCESS':
                sess.violation('c06:finished-task-wrong-status',
                               'the payload of task %s returned %s but the task is %s' % (
                                   name, value, final))
            wrong = [(kind, ident) for _, kind, ident, _, _, _ in env.await_results.get(name, ())
                     if kind != 'value' or ident != value]
            if wrong:
                sess.violation('c06:outcome-does-not-match-status',
                               'the payload of task %s returned %s but awaiters received %s' % (
                                   name, value, wrong))
        for name, seq in self.history.items():
            if seq and seq[0] not in ('CREATED', 'RUNNING'):
                pass    # first sampled after it finished within one turn: fine


def containment_monitor(env):
    """C04, offline over the recorded log: no code of a task (or of anything below it) runs
    after control left the block the task was started in"""
    sess = env.sess
    chains = {}

    def chain(actor):
        try:
            return chains[actor]
        except KeyError:
            pass
        result = []
        seen = set()
        current = actor
        while current in env.actor_parent and current not in seen:
            seen.add(current)
            kind, ref = env.actor_parent[current]
            if kind == 'task':
                result.append(ref)
                current = env.scope_inst[ref]['owner'] if ref in env.scope_inst else None
            else:
                current = ref
        chains[actor] = result
        return result

    begun = set()
    checked = 0
    for index, event in enumerate(sess.events):
        actor = event[1]
        if event[2] == 'begin':
            begun.add(actor)
        for key in chain(actor):
            info = env.scope_inst.get(key)
            if info is None or info['left'] is None:
                continue
            checked += 1
            if index >= info['left'][0]:
                sess.violation(
                    'c04:code-ran-after-scope-exit',
                    '%s logged %r at %r after control left block %s (of %s) at %r' % (
                        actor, event[2:5], event[0], key, info['owner'], info['left'][2]))
                break
    late = {}
    first_exit = {}
    for position, (label, when) in enumerate(sess.trace):
        try:
            limit = first_exit[label]
        except KeyError:
            lefts = [env.scope_inst[key]['left'][1] for key in chain(label)
                     if key in env.scope_inst and env.scope_inst[key]['left'] is not None]
            limit = first_exit[label] = min(lefts) if lefts else None
        if limit is not None and position >= limit:
            late[label] = late.get(label, 0) + 1
    for label, count in late.items():
        if label in begun or count > 1:
            sess.violation(
                'c04:activation-after-scope-exit',
                '%s was activated %d time(s) after control left a block it belongs to' % (
                    label, count))
    sess.stats['containment_events_checked'] += checked
    for ref, name in env.refused:
        if name in begun:
            sess.violation('c04:refused-payload-ran', 'payload %s refused by do() ran' % name)


def execute(program, session=None, prepare=None, lifecycle=True):
    """run a program under a (new) session; returns (env, outcome)"""
    sess = session if session is not None else Session()
    env = Env(program, sess)
    sess.budget_per_step = 400 + 60 * env.nsteps
    sess.budget_total = 20000 + 2000 * env.nsteps
    env.lifecycle = LifecycleMonitor(env) if lifecycle else None
    if prepare is not None:
        prepare(env)
    roots = [activity(env, root) for root in program['roots']]
    outcome = sess.run(*roots, start=program.get('start', 0), till=program.get('till'))
    for root in roots:
        try:
            root.close()
        except BaseException:  # noqa: B902 - teardown (R3)
            pass
    env.outcome = env.classify_outcome(outcome)
    containment_monitor(env)
    if env.lifecycle is not None:
        env.lifecycle.finish()
    return env, outcome
