"""Ambient situations in which a case is executed.

Every statement is about "a simulation"; none of them depends on *where* ``usim.run`` is called
from.  So every case of every check is executed in one of a few situations that a correct library
cannot tell apart (the oracle of the case stays what it is):

``plain``   called from the main thread, nothing else going on
``except``  called from inside an ``except`` block: ``sys.exc_info()`` is set during the whole case
``thread``  called from a fresh thread (which is called ``MainThread`` like the real one)
``wreck``   right after a few simulations of this thread that ended badly: a root failed while
            other activities held locks / resources, waited for queues, channels, flags, dates,
            sat in ``until`` blocks or ran nested simulations; a run stopped by ``till``; a run
            that ran dry with activities suspended for good; an environment of the SimPy layer
            whose process failed.  "Afterwards - however it ended - that thread sees no
            simulation again" (C15): nothing of them may reach into the next simulation.

The situation is a function of the case index and stored in the case (``case['ambient']``), so a
replay reproduces it.  ``VERIF_AMBIENT=0`` switches the layer off (everything ``plain``).
"""
import gc
import os
import threading

MODES = ('plain', 'except', 'plain', 'thread', 'plain', 'wreck')


def mode_for(seed, index, nshards):
    if os.environ.get('VERIF_AMBIENT', '1') == '0':
        return 'plain'
    # consecutive cases of one shard (index, index + nshards, ...) get different situations
    return MODES[(index // max(1, nshards) + index + seed) % len(MODES)]


def call(mode, function, *args):
    if mode == 'except':
        try:
            raise LookupError('being handled while the case runs')
        except LookupError:
            return function(*args)
    if mode == 'thread':
        box = {}

        def body():
            try:
                box['result'] = function(*args)
            except BaseException as err:  # noqa: B902 - handed to the caller
                box['error'] = err
        thread = threading.Thread(target=body, name='MainThread')
        thread.start()
        thread.join()
        if 'error' in box:
            raise box['error']
        return box['result']
    if mode == 'wreck':
        wreck()
    return function(*args)


def wreck():
    """a few simulations that end badly, unmonitored; whatever they leave behind is finalised
    outside of any simulation before the case begins (as after every monitored run)"""
    import usim
    from usim import (time, until, Scope, Flag, Lock, Queue, Channel, Resources, Capacities,
                      Pipe, Tracked, interval, eternity, first)
    from . import probe

    class Wrecked(Exception):
        pass

    shared = {'lock': Lock(), 'queue': Queue(), 'channel': Channel(), 'flag': Flag(),
              'level': Tracked(1), 'supply': Resources(a=3, b=2), 'cap': Capacities(a=2),
              'pipe': Pipe(throughput=2)}

    async def holder(lock, supply, cap):
        async with lock:
            async with supply.borrow(a=2, b=1):
                async with cap.borrow(a=1):
                    await eternity

    async def contender(lock):
        await (time + 0.5)
        async with lock:
            await (time + 1)

    async def getter(queue):
        await queue

    async def listener(channel):
        async for _ in channel:
            pass

    async def watcher(flag, level):
        await (flag & (level > 3) | (time >= 50))

    async def sender(pipe):
        await pipe.transfer(100)

    async def ticker():
        async for _ in interval(0.75):
            pass

    async def racer():
        async for _ in first(time + 40, time + 30):
            pass

    async def blocked(flag):
        async with until(flag | (time == 70)):
            async with Scope() as scope:
                scope.do(time + 80)
                scope.do(eternity, volatile=True)
                await (time + 90)

    async def inner_failure():
        async def child():
            await (time + 1)
            raise Wrecked('inner')
        try:
            usim.run(child(), holder(Lock(), Resources(a=3, b=2), Capacities(a=2)))
        except Wrecked:
            pass
        await eternity

    async def root(fail_at, how):
        s = shared
        async with Scope() as scope:
            scope.do(holder(s['lock'], s['supply'], s['cap']))
            scope.do(contender(s['lock']))
            scope.do(getter(s['queue']))
            scope.do(listener(s['channel']))
            scope.do(watcher(s['flag'], s['level']))
            scope.do(sender(s['pipe']))
            scope.do(ticker(), volatile=True)
            scope.do(racer())
            scope.do(blocked(s['flag']))
            scope.do(time + 5, after=2)
            scope.do(time + 5, at=60)
            await (time + fail_at)
            await s['level'].set(2)
            await s['channel'].put('x')
            if how == 'raise':
                raise Wrecked('root')
            if how == 'exit':
                raise SystemExit(3)
            await eternity

    async def loose():
        # not inside any scope of its own: stays suspended when the simulation runs dry
        async with shared['lock']:
            await shared['queue']

    async def nested_root():
        await (time + 1)
        await inner_failure()

    for coros, kwargs in (
            (lambda: (root(3, 'raise'), loose()), {}),
            (lambda: (root(2, 'exit'),), {'start': -5}),
            (lambda: (root(4, 'wait'), loose()), {'till': 7}),
            (lambda: (loose(), getter(shared['queue'])), {'start': 2 ** 40}),
            (lambda: (nested_root(), root(1.5, 'raise')), {}),
    ):
        made = coros()
        try:
            usim.run(*made, **kwargs)
        except (Wrecked, SystemExit):
            pass
        del made
    try:
        from usim.py import Environment

        def process(env, fail):
            yield env.timeout(1)
            if fail:
                raise Wrecked('process')
            yield env.event()

        env = Environment(initial_time=3)
        env.process(process(env, False))
        env.process(process(env, True))
        try:
            env.run(until=10)
        except Wrecked:
            pass
        del env
    except ImportError:
        pass
    shared.clear()
    probe._release_waiters_of_singletons()
    gc.collect()
