"""Worker process: runs one shard of a check's case space in a fresh interpreter"""
import importlib
import json
import os
import sys
import time
import traceback

from . import bootstrap  # noqa: F401
from . import ambient


def load(cid):
    return importlib.import_module('usimmon.checks.%s' % cid.lower())


def scaled(mod, tier):
    total = mod.n_cases(tier)
    scale = float(os.environ.get('VERIF_SCALE', '1') or 1)
    return max(1, int(total * scale))


def run_shard(cid, tier, seed, shard, nshards, out):
    mod = load(cid)
    total = scaled(mod, tier)
    evaluations = 0
    sigs = set()
    stats = {}
    violations = []
    samples = []
    started = time.time()

    def merge(into, add):
        for key, value in add.items():
            if isinstance(value, (int, float)):
                into[key] = into.get(key, 0) + value
            elif isinstance(value, (list, set, tuple)):
                merged = set(into.get(key, []))
                merged.update(value)
                into[key] = sorted(merged)
            elif isinstance(value, dict):
                sub = into.setdefault(key, {})
                for k, v in value.items():
                    sub[k] = sub.get(k, 0) + v

    meta = {
        'level': getattr(mod, 'LEVEL', 'exploration'),
        'rule': getattr(mod, 'RULE', ''),
        'assumptions': getattr(mod, 'ASSUMPTIONS', []),
        'required_stats': getattr(mod, 'REQUIRED_STATS', []),
        'exhaustive': bool(getattr(mod, 'EXHAUSTIVE', False)) and tier in getattr(
            mod, 'EXHAUSTIVE_TIERS', ('quick', 'thorough')),
    }
    dumped_partial = False

    def dump(partial):
        with open(out + '.tmp', 'w') as stream:
            json.dump({
                'evaluations': evaluations, 'sigs': sorted(sigs), 'stats': stats,
                'violations': violations, 'samples': samples, 'meta': meta,
                'wall': time.time() - started, 'partial': partial,
            }, stream, default=repr)
        os.replace(out + '.tmp', out)

    if os.environ.get('VERIF_OVERLAP', '1') != '0':
        # once per shard (= per configuration): two simulations alive at once in two threads
        from . import overlap
        try:
            found, overlap_stats = overlap.check()
        except BaseException as err:  # noqa: B902
            found, overlap_stats = [{'mechanism': 'harness-error', 'case': {'canary': 'overlap'},
                                     'msg': 'overlap scenario crashed: %r' % (err,)}], {}
        merge(stats, overlap_stats)
        violations.extend(found)
        evaluations += 3
    for index in range(shard, total, nshards):
        case = mod.make_case(seed, index, tier)
        mode = ambient.mode_for(seed, index, nshards) if isinstance(case, dict) else 'plain'
        if mode != 'plain':
            case['ambient'] = mode
        stats['ambient_' + mode] = stats.get('ambient_' + mode, 0) + 1
        try:
            res = ambient.call(mode, mod.run_case, case)
        except BaseException as err:  # noqa: B902 - a crash of the harness itself
            if isinstance(err, KeyboardInterrupt):
                raise
            res = {'evals': 1, 'sigs': [], 'stats': {'harness_errors': 1}, 'violations': [{
                'mechanism': 'harness-error',
                'msg': 'harness crashed: %s' % ''.join(
                    traceback.format_exception(type(err), err, err.__traceback__))[-1500:],
            }]}
        evaluations += res.get('evals', 1)
        sigs.update(res.get('sigs', ()))
        merge(stats, res.get('stats', {}))
        for vio in res.get('violations', ()):
            if len(violations) < 40:
                vio = dict(vio)
                vio.setdefault('case', case)
                violations.append(vio)
        if len(samples) < 2 and res.get('sample') is not None:
            samples.append(res['sample'])
        if res.get('violations') and not dumped_partial:
            # what has been seen so far survives a shard that does not finish in time (a change
            # that makes every execution run into its budget): a violation found is a violation
            dumped_partial = True
            dump(partial=True)
    dump(partial=False)


def replay(cid, path):
    mod = load(cid)
    with open(path) as stream:
        record = json.load(stream)
    case = record['violation']['case']
    if case.get('canary') == 'overlap':
        from . import overlap
        found, overlap_stats = overlap.check()
        res = {'violations': found, 'stats': overlap_stats}
    else:
        res = ambient.call(case.get('ambient', 'plain'), mod.run_case, case)
    print(json.dumps({'violations': res.get('violations'), 'stats': res.get('stats')},
                     indent=1, default=repr))
    if res.get('violations'):
        print('VIOLATION property=%s replay=%s' % (cid, path))
        return 1
    print('replay of %s: no violation' % path)
    return 0


if __name__ == '__main__':
    if sys.argv[1] == '--replay':
        sys.exit(replay(sys.argv[2], sys.argv[3]))
    run_shard(sys.argv[1], sys.argv[2], int(sys.argv[3]), int(sys.argv[4]),
              int(sys.argv[5]), sys.argv[6])
