"""Runtime monitors for usim (MaineKuehn/usim).

Everything here drives the *real* code of the repository under test; which
tree that is, is decided by ``VERIF_REPO`` (default ``/repo``).  Import
``usimmon.bootstrap`` first: it puts that tree in front of ``sys.path`` and
checks that ``usim`` was really imported from it.
"""
