"""Random generator for programs of the scenario language (see prog.py).

Only *valid* programs are produced (DESIGN R1): no negative delays or amounts, no
inverted ``time == t``, no operators on delays, every loop bounded.
All dates and durations come from a small dyadic grid that is chosen to collide.
"""
import random

GRID = [0, 0, 0.125, 0.25, 0.5, 0.5, 1, 1, 1.5, 2, 2, 3, 5]
DATES = [0, 0.5, 1, 1, 1.5, 2, 2, 2.5, 3, 4, 5, 8]

DEFAULT_WEIGHTS = {
    'wait': 10, 'setflag': 5, 'settracked': 5, 'lock': 4, 'put': 4, 'get': 3, 'iter': 2,
    'close': 1, 'borrow': 4, 'resource': 2, 'transfer': 3, 'scope': 6, 'until': 6,
    'spawn': 2, 'cancel': 3, 'await_task': 3, 'raise': 1, 'ticker': 2, 'collect': 2,
    'first': 2, 'guard': 1, 'graceful': 1, 'watch': 1.5, 'nested': 0, 'phases': 0,
}


class Gen:
    def __init__(self, rng, weights=None, max_depth=3, max_steps=5, max_roots=4,
                 fail_rate=1.0, start_times=(0,), allow_inf=False):
        self.rng = rng
        self.weights = dict(DEFAULT_WEIGHTS)
        self.scope_ids = []
        if weights:
            self.weights.update(weights)
        self.weights['raise'] = self.weights['raise'] * fail_rate
        self.max_depth = max_depth
        self.max_steps = max_steps
        self.max_roots = max_roots
        self.start_times = start_times
        self.counter = 0
        self.tasks = []
        self.scope_ids = []
        self.allow_inf = allow_inf

    def next_id(self, prefix):
        self.counter += 1
        return '%s%d' % (prefix, self.counter)

    # -- program -------------------------------------------------------------
    def program(self):
        rng = self.rng
        self.objects = {
            'flags': 3,
            'tracked': [0, 2],
            'locks': 2,
            'queues': 2,
            'channels': 1,
            'resources': [
                {'kind': 'resources', 'levels': {'a': 4, 'b': 2}},
                {'kind': 'capacities', 'levels': {'a': 3}},
            ],
            'pipes': [2, 'inf'],
        }
        start = rng.choice(self.start_times)
        self.start = start
        roots = []
        for index in range(rng.randint(1, self.max_roots)):
            roots.append({'name': 'r%d' % index, 'steps': self.steps(0)})
        self.resolve_later(roots)
        # some programs use classes of their own derived from the library's
        self.objects['subclassed'] = rng.random() < 0.15
        self.objects['cloned'] = not self.objects['subclassed'] and rng.random() < 0.12
        return {'objects': self.objects, 'roots': roots, 'start': start, 'till': None}

    def resolve_later(self, node):
        """clean-up code may refer to tasks that are only spawned later in the program"""
        if isinstance(node, dict):
            if node.get('cancel') == '<later>':
                if self.tasks:
                    node['cancel'] = self.rng.choice(self.tasks)
                else:
                    del node['cancel']
            for value in node.values():
                self.resolve_later(value)
        elif isinstance(node, list):
            for value in node:
                self.resolve_later(value)

    def steps(self, depth, n=None):
        rng = self.rng
        if n is None:
            n = rng.randint(1, self.max_steps) if depth < self.max_depth else rng.randint(0, 2)
        return [self.step(depth) for _ in range(n)]

    def step(self, depth):
        rng = self.rng
        weights = dict(self.weights)
        if depth >= self.max_depth:
            for key in ('lock', 'borrow', 'scope', 'until', 'ticker', 'collect', 'first', 'iter',
                        'guard', 'graceful', 'phases'):
                weights[key] = 0
        if not self.tasks:
            weights['await_task'] = 0
            weights['cancel'] = weights['cancel'] * 0.3 if depth else 0
        if depth == 0:
            weights['spawn'] = 0
            weights['guard'] = 0
            weights['watch'] = 0
        ops = [op for op, weight in weights.items() if weight > 0]
        op = rng.choices(ops, [weights[o] for o in ops])[0]
        step = getattr(self, 'g_' + op)(depth)
        step['id'] = self.next_id('s')
        if op in ('setflag', 'put', 'close', 'transfer') and rng.random() < 0.08:
            step['early'] = rng.choice([0.5, 1])
        if op in ('scope', 'until'):
            self.scope_ids.append(step['id'])
        return step

    # -- notifications -------------------------------------------------------
    def date(self):
        return self.start + self.rng.choice(DATES)

    def cond(self, depth=0):
        """a Condition spec (usable in & | ~)"""
        rng = self.rng
        kinds = ['ge', 'ge', 'lt', 'eq', 'instant', 'eternity', 'flag', 'flag', 'flag',
                 'tracked', 'tracked', 'done', 'levels']
        if depth < 2:
            kinds += ['and', 'or', 'inv']
        kind = rng.choice(kinds)
        if kind in ('ge', 'lt', 'eq'):
            return {'k': kind, 't': self.date()}
        if kind in ('instant', 'eternity'):
            return {'k': kind}
        if kind == 'flag':
            return {'k': 'flag', 'f': rng.randrange(self.objects['flags']),
                    'neg': rng.random() < 0.3}
        if kind == 'tracked':
            return {'k': 'tracked', 'i': rng.randrange(len(self.objects['tracked'])),
                    'cmp': rng.choice(['lt', 'le', 'eq', 'ne', 'ge', 'gt']),
                    'v': rng.randint(-1, 4)}
        if kind == 'levels':
            return {'k': 'levels', 'r': 0, 'cmp': rng.choice(['ge', 'le', 'eq']),
                    'v': {'a': rng.randint(0, 5), 'b': rng.randint(0, 3)}}
        if kind == 'done':
            if not self.tasks:
                return {'k': 'instant'}
            return {'k': 'done', 'task': rng.choice(self.tasks), 'neg': rng.random() < 0.25}
        if kind in ('and', 'or'):
            return {'k': kind, 'a': [self.cond(depth + 1) for _ in range(rng.randint(2, 3))]}
        sub = self.cond(depth + 1)
        while not self.invertible(sub):
            sub = self.cond(depth + 1)
        return {'k': 'inv', 'a': sub}

    def invertible(self, spec):
        if spec['k'] == 'eq':
            return False
        if spec['k'] in ('and', 'or'):
            return all(self.invertible(sub) for sub in spec['a'])
        if spec['k'] == 'inv':
            return self.invertible(spec['a'])
        return True

    def notif(self):
        rng = self.rng
        if rng.random() < 0.35:
            delay = rng.choice(GRID)
            return {'k': 'delay', 'd': delay} if delay > 0 else {'k': 'instant'}
        return self.cond()

    # -- steps ---------------------------------------------------------------
    def g_wait(self, depth):
        rng = self.rng
        if rng.random() < 0.6:
            delay = rng.choice(GRID)
            return {'op': 'wait', 'n': {'k': 'delay', 'd': delay} if delay > 0
                    else {'k': 'instant'}}
        return {'op': 'wait', 'n': self.cond()}

    def g_setflag(self, depth):
        return {'op': 'setflag', 'f': self.rng.randrange(self.objects['flags']),
                'v': self.rng.random() < 0.7, 'via_inverse': self.rng.random() < 0.2}

    def g_settracked(self, depth):
        rng = self.rng
        index = rng.randrange(len(self.objects['tracked']))
        if rng.random() < 0.5:
            return {'op': 'settracked', 'i': index, 'add': rng.choice([-1, 1, 1, 2])}
        return {'op': 'settracked', 'i': index, 'v': rng.randint(-1, 4)}

    def g_lock(self, depth):
        return {'op': 'lock', 'l': self.rng.randrange(self.objects['locks']),
                'body': self.steps(depth + 1, self.rng.randint(0, 3))}

    def stream(self):
        rng = self.rng
        if rng.random() < 0.3:
            return 'channels', rng.randrange(self.objects['channels'])
        return 'queues', rng.randrange(self.objects['queues'])

    def g_put(self, depth):
        kind, index = self.stream()
        return {'op': 'put', 'kind': kind, 'q': index, 'item': self.next_id('i')}

    def g_get(self, depth):
        kind, index = self.stream()
        return {'op': 'get', 'kind': kind, 'q': index}

    def g_iter(self, depth):
        kind, index = self.stream()
        return {'op': 'iter', 'kind': kind, 'q': index, 'max': self.rng.randint(0, 3),
                'body': self.steps(depth + 1, self.rng.randint(0, 1))}

    def g_close(self, depth):
        kind, index = self.stream()
        return {'op': 'close', 'kind': kind, 'q': index}

    def amounts(self, index):
        rng = self.rng
        levels = self.objects['resources'][index]['levels']
        result = {}
        for key, value in levels.items():
            if rng.random() < 0.7:
                result[key] = rng.randint(0, value)
        if not result:
            key = next(iter(levels))
            result[key] = rng.randint(0, levels[key])
        return result

    def g_borrow(self, depth):
        rng = self.rng
        index = rng.randrange(len(self.objects['resources']))
        amounts = self.amounts(index)
        step = {'op': 'borrow', 'r': index, 'amounts': amounts,
                'claim': rng.random() < 0.25,
                'body': self.steps(depth + 1, rng.randint(0, 3))}
        if rng.random() < 0.25:
            step['nested'] = {key: rng.randint(0, value) for key, value in amounts.items()}
        return step

    def g_resource(self, depth):
        rng = self.rng
        how = rng.choice(['increase', 'increase', 'decrease', 'set'])
        return {'op': 'resource', 'r': 0, 'how': how,
                'amounts': {rng.choice(['a', 'b']): rng.randint(0, 3)}}

    def g_transfer(self, depth):
        rng = self.rng
        return {'op': 'transfer', 'p': rng.randrange(len(self.objects['pipes'])),
                'v': rng.choice([0, 0.5, 1, 2, 4]),
                'limit': rng.choice([None, None, 0.5, 1, 4])}

    def child(self, depth):
        rng = self.rng
        name = self.next_id('t')
        spec = {'name': name, 'volatile': rng.random() < 0.25}
        roll = rng.random()
        if roll < 0.2:
            spec['after'] = rng.choice(GRID)
        elif roll < 0.3:
            spec['at'] = self.date()
        if rng.random() < 0.3:
            spec['result'] = self.next_id('v')
        elif rng.random() < 0.12:
            spec['result'] = rng.choice([0, '', False, [], 0.0,      # falsy results
                                         # exception instances as plain results
                                         {'exception': 'value'}, {'exception': 'cancelled'}])
        spec['steps'] = self.steps(depth + 1)
        if rng.random() < 0.06:
            spec['cancel_at_once'] = True
        self.tasks.append(name)
        return spec

    def g_scope(self, depth, notif=None):
        rng = self.rng
        sid = None
        step = {'op': 'scope', 'n': notif,
                'children': [], 'catch': rng.random() < 0.6}
        if rng.random() < 0.12:
            step['manual'] = True       # entered and left through __aenter__ / __aexit__ calls
        for _ in range(rng.randint(0, 3)):
            step['children'].append(self.child(depth))
        step['body'] = self.steps(depth + 1, rng.randint(0, 3))
        return step

    def g_until(self, depth):
        return self.g_scope(depth, notif=self.notif())

    def g_spawn(self, depth):
        return {'op': 'spawn', 'child': self.child(depth)}

    def g_graceful(self, depth):
        rng = self.rng
        cleanup = [{'op': 'wait', 'n': {'k': 'delay', 'd': rng.choice([0.5, 1, 2])} if
                    rng.random() < 0.7 else {'k': 'instant'}, 'id': self.next_id('s')}
                   for _ in range(rng.randint(1, 2))]
        return {'op': 'graceful', 'body': self.steps(depth + 1, rng.randint(1, 3)),
                'cleanup': cleanup}

    def g_guard(self, depth):
        step = {'op': 'guard', 'body': self.steps(depth + 1, self.rng.randint(1, 3)),
                'child': self.child(depth)}
        if self.rng.random() < 0.35:
            # the clean-up also withdraws some other task of the program (which may not even
            # have started when that happens)
            step['cancel'] = '<later>'
        return step

    def g_watch(self, depth):
        """hand something that is not a coroutine to scope.do(): a running Task of another
        block (a watcher) or a bare notification; always volatile, so it cannot block the exit"""
        rng = self.rng
        step = {'op': 'watch'}
        if self.tasks and rng.random() < 0.7:
            step.update(payload='task', task=rng.choice(self.tasks))
        else:
            step.update(payload='notif', n=self.notif())
        if self.scope_ids and rng.random() < 0.25:
            # some other block of the program: may have ended (refused), may be running
            step['scope'] = rng.choice(self.scope_ids)
        return step

    def g_phases(self, depth):
        rng = self.rng
        # a flag of the program or a date that lies ahead
        notif = {'k': 'flag', 'f': rng.randrange(self.objects['flags']), 'neg': False} \
            if rng.random() < 0.6 else {'k': 'ge', 't': self.date()}
        return {'op': 'phases', 'n': notif, 'body': self.steps(depth + 1, rng.randint(1, 3))}

    def g_nested(self, depth):
        return {'op': 'nested', 'd': self.rng.choice([0.5, 1, 3]),
                'start': self.rng.choice([0, 100, -7]), 'levels': self.rng.choice([1, 1, 2, 3])}

    def g_cancel(self, depth):
        rng = self.rng
        step = {'op': 'cancel', 'task': rng.choice(self.tasks + ['<self>']),
                'yield': rng.random() < 0.8}
        if rng.random() < 0.5:
            step['token'] = [self.next_id('k')]
        return step

    def g_await_task(self, depth):
        return {'op': 'await_task', 'task': self.rng.choice(self.tasks),
                'catch': self.rng.random() < 0.7}

    def g_raise(self, depth):
        rng = self.rng
        kind = rng.choice(['err', 'err', 'err', 'key', 'index', 'lookup', 'eq', 'eq', 'falsy',
                           'stream', 'unavailable', 'interval'])
        if rng.random() < 0.12:
            # subclasses of the exceptions that scopes treat specially
            kind = rng.choice(['exit', 'kbd', 'assert'])
        return {'op': 'raise', 'kind': kind, 'tag': self.next_id('e')}

    def g_ticker(self, depth):
        rng = self.rng
        return {'op': 'ticker', 'how': rng.choice(['interval', 'delay']),
                'p': rng.choice([0, 0.5, 1, 2]), 'n': rng.randint(1, 3),
                'bodies': [self.steps(depth + 1, rng.randint(0, 2))
                           for _ in range(rng.randint(1, 2))]}

    def sub_activity(self, depth):
        name = self.next_id('c')
        spec = {'name': name, 'steps': self.steps(depth + 1, self.rng.randint(0, 3))}
        if self.rng.random() < 0.7:
            spec['result'] = self.next_id('v')
        return spec

    def g_collect(self, depth):
        rng = self.rng
        return {'op': 'collect', 'catch': rng.random() < 0.7,
                'acts': [self.sub_activity(depth) for _ in range(rng.randint(0, 3))]}

    def g_first(self, depth):
        rng = self.rng
        acts = [self.sub_activity(depth) for _ in range(rng.randint(0, 3))]
        count = rng.choice([None, 1, 1, 2, len(acts), len(acts) + 1])
        step = {'op': 'first', 'catch': rng.random() < 0.7, 'acts': acts, 'count': count,
                'body': self.steps(depth + 1, rng.randint(0, 1))}
        if rng.random() < 0.3:
            step['brk'] = 1
        return step


def general_program(seed, index, **kwargs):
    rng = random.Random('%s/%s/general' % (seed, index))
    return Gen(rng, **kwargs).program()
